// Package c20: the audit-log chain verifies when intact and fails when altered.
//
// A case is a list of log entries with adversarial content written through the real crypto
// formatter + audit-log hooks + AuditLogHandler (chain restarts through the real ResetChain /
// FinalizeChain), then one edit of the produced bytes, then the real reader (ReadLogEntries) and the
// real verifier (IntegrityCheckVerifier.VerifyIntegrityCheck).
//
// ResetChain / FinalizeChain emit their service entries through logrus' *standard* logger, so the
// writer has to be wired to the standard logger the way acra-server does it; Check re-installs
// output, formatter, level and hooks of that logger at its top and parks it on io.Discard at its end,
// so no case sees state of another one.
package c20

import (
	"bufio"
	"bytes"
	"encoding/json"
	"errors"
	"fmt"
	"io"
	"os"
	"path/filepath"
	"reflect"
	"sort"
	"strconv"
	"strings"
	"testing"
	"time"
	"unicode"
	"unicode/utf8"

	"github.com/sirupsen/logrus"
	"pgregory.net/rapid"

	"github.com/cossacklabs/acra/logging"

	"verif/internal/gen"
	"verif/internal/hx"
)

var R = hx.New("C20")

func TestMain(m *testing.M) {
	logrus.SetOutput(io.Discard) // the verifier warns through the standard logger
	code := R.Main(m)
	if scratchDir != "" {
		os.RemoveAll(scratchDir)
	}
	os.Exit(code)
}

// ---------------------------------------------------------------------------------------------
// case

// Field is one caller field. Kind "" = string value; int|float|bool|err = Value parsed as that type.
type Field struct {
	Name  gen.Hex `json:"name"`
	Value gen.Hex `json:"value"`
	Kind  string  `json:"kind,omitempty"`
}

// Entry is one log call. The message is Msg repeated Rep times (Rep 0 = once).
// Restart, performed before the entry: "reset" = AuditLogHandler.ResetChain (SIGUSR1 path),
// "restart" = FinalizeChain + a fresh formatter/hooks/handler appending to the same log (service
// restart), "finalize" = FinalizeChain alone.
type Entry struct {
	Msg     gen.Hex `json:"msg"`
	Rep     int     `json:"rep,omitempty"`
	Fields  []Field `json:"fields,omitempty"`
	Level   string  `json:"level"`
	Restart string  `json:"restart,omitempty"`
}

// Edit is one alteration of the produced log.
//
//	none
//	changebyte  xor one byte of line Index with Xor; Region picks where in the line (any|tag|marker|sep|head), Pos the offset inside the region
//	delete      remove line Index
//	swap        exchange lines Index and To (To < 0: the neighbour; ToSame: the line at the same offset in another chain)
//	duplicate   insert a copy of line Index before line To (ToEnd: append; To < 0: right behind the original; ToSame: before the line at the same offset in another chain)
//	truncate    keep only the first Index lines (tail truncation of the log)
//	cuttail     remove line Index and everything after it up to the end of its chain (falls back to truncate in the final chain)
//	wrongkey    leave the log alone, verify with Key
//
// Anchor, if set, re-bases Index on a chain: chain number Index (mod #chains), then
// chainstart | chainsecond | chainend (last line of the chain) | chainpenult; "afterendtext" = the
// Index-th line that follows a line containing the end-of-chain text.
type Edit struct {
	Op     string  `json:"op"`
	Index  int     `json:"index,omitempty"`
	Anchor string  `json:"anchor,omitempty"`
	Region string  `json:"region,omitempty"`
	Pos    int     `json:"pos,omitempty"`
	Xor    int     `json:"xor,omitempty"`
	To     int     `json:"to,omitempty"`
	ToEnd  bool    `json:"toend,omitempty"`
	ToSame bool    `json:"tosame,omitempty"` // swap/duplicate: partner = the line at the same offset inside chain number To (mod #chains, another chain if there is one)
	Key    gen.Hex `json:"key,omitempty"`
}

// Case is one written log plus one edit.
type Case struct {
	Format   string  `json:"format"`
	Key      gen.Hex `json:"key"`
	Entries  []Entry `json:"entries"`
	Finalize bool    `json:"finalize,omitempty"` // FinalizeChain after the last entry
	Edit     Edit    `json:"edit"`
}

var formats = []string{logging.PlaintextFormatString, logging.JSONFormatString, logging.CefFormatString}

const (
	endMsg     = logging.EndOfAuditLogChainMessage
	prepareMsg = "Prepare to audit log chain finalization"
	tokIntegr  = " integrity="
)

// ---------------------------------------------------------------------------------------------
// generator

var words = []string{"service", "started", "client_id", "ok", "42", "query", "acra-server", "done.", "x", "listening"}

var hostileLits = []string{
	"\n", "\r\n", "\r", "\t", `"`, `'`, "=", "|", `\`, `\\`, `\"`, `\n`, ` `, `  `,
	" integrity=", "integrity=", " integrity=deadbeef", " integrity=0000000000000000000000000000000000000000000000000000000000000000",
	" chain=new", "chain=new", "chain=end", " chain=end", endMsg, prepareMsg, "delimiter",
	`msg="` + endMsg + `" chain=end`, endMsg + " chain=end",
	`","integrity":"00`, `{"integrity":"00"}`, `\u0000`, "\x00", "\xff\xfe", "\xc3", "\xe2\x80\xa8", "é", "日本",
	"{", "}", "CEF:0|", "%s", "%!d(", "<", "&",
}

var reservedNames = []string{"integrity", "chain", "msg", "level", "time", "unixTime", "product", "version", "timestamp",
	"vendor", "code", "severity", "error", "fields.msg", "fields.level", "fields.time", "delimiter", "func", "file", ""}

var plainNames = []string{"a-field", "client_id", "z-field", "session", "port"}

func genText(t *rapid.T, label string) []byte {
	n := rapid.IntRange(1, 4).Draw(t, label+".n")
	var b []byte
	for i := 0; i < n; i++ {
		l := fmt.Sprintf("%s.%d", label, i)
		switch rapid.IntRange(0, 9).Draw(t, l+".k") {
		case 0, 1, 2:
			b = append(b, rapid.SampledFrom(words).Draw(t, l+".w")...)
		case 3, 4, 5, 6:
			b = append(b, rapid.SampledFrom(hostileLits).Draw(t, l+".h")...)
		case 7:
			b = append(b, rapid.SliceOfN(rapid.Byte(), 0, 8).Draw(t, l+".b")...)
		case 8:
			b = append(b, rapid.StringN(0, 6, -1).Draw(t, l+".s")...)
		default:
			b = append(b, ' ')
		}
	}
	return b
}

func genMsg(t *rapid.T, label string) (gen.Hex, int) {
	switch k := rapid.IntRange(0, 39).Draw(t, label+".kind"); {
	case k < 10:
		return gen.Hex(fmt.Sprintf("Plain message number %d", rapid.IntRange(0, 999).Draw(t, label+".no"))), 0
	case k < 12:
		return gen.Hex{}, 0
	case k == 12:
		return gen.Hex(endMsg), 0
	case k == 13:
		return gen.Hex(strings.ToLower(endMsg)), 0
	case k == 14:
		return gen.Hex(prepareMsg), 0
	case k == 15: // one line beyond bufio.MaxScanTokenSize
		return gen.Hex("0123456789abcdef "), rapid.IntRange(3900, 4200).Draw(t, label+".rep")
	case k == 16: // a few KiB
		return genText(t, label+".pat"), rapid.IntRange(50, 400).Draw(t, label+".rep")
	default:
		return genText(t, label), 0
	}
}

func genField(t *rapid.T, label string, earlier []Field) Field {
	var f Field
	switch k := rapid.IntRange(0, 9).Draw(t, label+".nk"); {
	case k < 3:
		f.Name = gen.Hex(rapid.SampledFrom(plainNames).Draw(t, label+".plain"))
	case k < 7:
		f.Name = gen.Hex(rapid.SampledFrom(reservedNames).Draw(t, label+".res"))
	case k < 9 || len(earlier) == 0:
		f.Name = genText(t, label+".name")
	default:
		f.Name = append(gen.Hex(nil), earlier[rapid.IntRange(0, len(earlier)-1).Draw(t, label+".dup")].Name...)
	}
	switch k := rapid.IntRange(0, 9).Draw(t, label+".vk"); {
	case k < 2:
		f.Value = gen.Hex(rapid.SampledFrom(words).Draw(t, label+".vw"))
	case k < 7:
		f.Value = genText(t, label+".val")
	case k == 7:
		f.Value = gen.Hex(rapid.SampledFrom([]string{"new", "end", "", "0", "New"}).Draw(t, label+".vc"))
	default:
		f.Kind = rapid.SampledFrom([]string{"int", "float", "bool", "err"}).Draw(t, label+".kind")
		switch f.Kind {
		case "int":
			f.Value = gen.Hex(strconv.FormatInt(rapid.SampledFrom([]int64{0, 1, -1, 9393, 1 << 53, 1<<53 + 1, 1<<63 - 1, -1 << 63}).Draw(t, label+".i"), 10))
		case "float":
			f.Value = gen.Hex(rapid.SampledFrom([]string{"0", "1.5", "-0", "1e21", "1e-7", "0.1", "123456789.125", "1e300"}).Draw(t, label+".f"))
		case "bool":
			f.Value = gen.Hex(strconv.FormatBool(rapid.Bool().Draw(t, label+".b")))
		default:
			f.Value = genText(t, label+".err")
		}
	}
	return f
}

var levels = []string{"info", "debug", "warning", "error", "fatal", "panic"}

func genEntry(t *rapid.T, label string) Entry {
	var e Entry
	e.Msg, e.Rep = genMsg(t, label+".msg")
	nf := rapid.SampledFrom([]int{0, 0, 0, 1, 1, 1, 2, 2, 3, 4}).Draw(t, label+".nf")
	for i := 0; i < nf; i++ {
		e.Fields = append(e.Fields, genField(t, fmt.Sprintf("%s.f%d", label, i), e.Fields))
	}
	e.Level = rapid.SampledFrom(levels).Draw(t, label+".level")
	e.Restart = rapid.SampledFrom([]string{"", "", "", "", "", "", "", "", "", "", "", "", "reset", "reset", "restart", "finalize"}).Draw(t, label+".restart")
	return e
}

func genLog(t *rapid.T) Case {
	c := Case{Format: rapid.SampledFrom(formats).Draw(t, "format")}
	switch rapid.IntRange(0, 5).Draw(t, "keykind") {
	case 0:
		c.Key = rapid.SliceOfN(rapid.Byte(), 1, 64).Draw(t, "key")
	case 1:
		c.Key = gen.Hex("k")
	default:
		c.Key = rapid.SliceOfN(rapid.Byte(), 32, 32).Draw(t, "key32")
	}
	n := rapid.IntRange(1, 30).Draw(t, "n")
	if rapid.IntRange(0, 3).Draw(t, "small") == 0 {
		n = rapid.IntRange(1, 6).Draw(t, "nsmall")
	}
	for i := 0; i < n; i++ {
		c.Entries = append(c.Entries, genEntry(t, fmt.Sprintf("e%d", i)))
	}
	c.Finalize = rapid.IntRange(0, 2).Draw(t, "finalize") == 0
	c.Edit = Edit{Op: "none"}
	return c
}

var tamperOps = []string{"changebyte", "changebyte", "changebyte", "delete", "delete", "swap", "swap", "duplicate", "duplicate", "truncate", "cuttail", "wrongkey", "cutinside", "changelast"}

func genEdit(t *rapid.T, key []byte) Edit {
	e := Edit{Op: rapid.SampledFrom(tamperOps).Draw(t, "op")}
	if e.Op == "wrongkey" {
		switch rapid.IntRange(0, 4).Draw(t, "wk") {
		case 0: // one bit
			k := append([]byte(nil), key...)
			k[rapid.IntRange(0, len(k)-1).Draw(t, "wk.i")] ^= 1 << uint(rapid.IntRange(0, 7).Draw(t, "wk.bit"))
			e.Key = k
		case 1:
			e.Key = append([]byte(nil), key[:len(key)-1]...)
		case 2:
			e.Key = append(append([]byte(nil), key...), 0)
		case 3:
			e.Key = gen.Hex{}
		default:
			e.Key = rapid.SliceOfN(rapid.Byte(), 1, 48).Draw(t, "wk.rand")
		}
		return e
	}
	e.Index = rapid.IntRange(0, 1<<16).Draw(t, "index")
	e.Anchor = rapid.SampledFrom([]string{"", "", "", "chainstart", "chainsecond", "chainend", "chainpenult", "afterendtext"}).Draw(t, "anchor")
	switch e.Op {
	case "changebyte":
		e.Region = rapid.SampledFrom([]string{"any", "any", "any", "tag", "tag", "marker", "sep", "head"}).Draw(t, "region")
		e.Pos = rapid.IntRange(0, 1<<20).Draw(t, "pos")
		e.Xor = rapid.IntRange(1, 255).Draw(t, "xor")
		if rapid.IntRange(0, 3).Draw(t, "casebit") == 0 {
			e.Xor = 0x20
		}
	case "swap":
		e.To = rapid.IntRange(0, 1<<16).Draw(t, "to")
		switch rapid.IntRange(0, 3).Draw(t, "swapto") {
		case 0:
			e.To = -1 // neighbour
		case 1, 2:
			e.ToSame = true
		}
	case "duplicate":
		switch rapid.IntRange(0, 3).Draw(t, "dupto") {
		case 0:
			e.ToEnd = true
		case 1:
			e.To = -1 // right after the original
		case 2:
			e.To = rapid.IntRange(0, 1<<16).Draw(t, "to")
			e.ToSame = true
		default:
			e.To = rapid.IntRange(0, 1<<16).Draw(t, "to")
		}
	}
	return e
}

// ---------------------------------------------------------------------------------------------
// writer (real formatter + hooks + handler)

type logMeta struct {
	entryLine  []int        // index of the first line of each entry
	chainStart []int        // indexes of the lines that start a chain
	endLine    map[int]bool // lines that are end-of-chain entries for the writer (service entry of ResetChain/FinalizeChain, or a message equal to the end-of-chain text)
}

func fieldValue(f Field) interface{} {
	s := string(f.Value)
	switch f.Kind {
	case "int":
		if v, err := strconv.ParseInt(s, 10, 64); err == nil {
			return v
		}
	case "float":
		if v, err := strconv.ParseFloat(s, 64); err == nil {
			return v
		}
	case "bool":
		return s == "true"
	case "err":
		return errors.New(s)
	}
	return s
}

func message(e Entry) string {
	if e.Rep > 1 {
		return strings.Repeat(string(e.Msg), e.Rep)
	}
	return string(e.Msg)
}

var baseTime = time.Date(2021, 3, 4, 5, 6, 7, 0, time.UTC)

// wipe zeroises a key buffer the way the services do with utils.ZeroizeSymmetricKey once they have handed
// the key to the logging package: whatever the package needs later it must have derived or copied by then.
func wipe(b []byte) {
	for i := range b {
		b[i] = 0
	}
}

func newHandler(format string, key []byte, out io.Writer) (*logging.AuditLogHandler, error) {
	kc := append([]byte(nil), key...)
	hooks, err := logging.NewHooks(kc, format)
	if err != nil {
		return nil, err
	}
	wipe(kc) // as acra-server and acra-translator do right after initialising the hooks
	formatter := logging.CreateCryptoFormatter(format)
	formatter.SetServiceName("acra-server")
	formatter.SetHooks(hooks)
	return logging.NewAuditLogHandler(formatter, out)
}

func writeLog(c Case) (buf []byte, meta logMeta, err error) {
	var out bytes.Buffer
	std := logrus.StandardLogger()
	install := func() (*logging.AuditLogHandler, error) {
		h, err := newHandler(c.Format, c.Key, &out)
		if err != nil {
			return nil, err
		}
		std.SetOutput(h)
		std.SetFormatter(h)
		return h, nil
	}
	std.ReplaceHooks(make(logrus.LevelHooks))
	std.SetReportCaller(false)
	std.SetLevel(logrus.DebugLevel)
	std.ExitFunc = func(int) {}
	defer func() {
		std.SetOutput(io.Discard)
		std.SetFormatter(&logrus.TextFormatter{DisableColors: true})
		std.SetLevel(logrus.InfoLevel)
	}()
	h, err := install()
	if err != nil {
		return nil, meta, err
	}
	lines := func() int { return bytes.Count(out.Bytes(), []byte("\n")) }
	meta.endLine = map[int]bool{}
	markEnd := func() { meta.endLine[lines()-1] = true }
	newChainPending := true
	for i, e := range c.Entries {
		switch e.Restart {
		case "reset":
			if newChainPending {
				meta.chainStart = append(meta.chainStart, lines())
			}
			kc := append([]byte(nil), c.Key...)
			h.ResetChain(kc)
			wipe(kc) // the services zeroise the key right after resetting the chain (SIGUSR1 path)
			markEnd()
			newChainPending = true
		case "restart":
			if newChainPending {
				meta.chainStart = append(meta.chainStart, lines())
			}
			h.FinalizeChain()
			markEnd()
			if h, err = install(); err != nil {
				return nil, meta, err
			}
			newChainPending = true
		case "finalize":
			if newChainPending {
				meta.chainStart = append(meta.chainStart, lines())
				newChainPending = false
			}
			h.FinalizeChain()
			markEnd()
		}
		if newChainPending {
			meta.chainStart = append(meta.chainStart, lines())
			newChainPending = false
		}
		meta.entryLine = append(meta.entryLine, lines())
		le := std.WithTime(baseTime.Add(time.Duration(i) * 1500 * time.Millisecond))
		for _, f := range e.Fields {
			le = le.WithField(string(f.Name), fieldValue(f))
		}
		lvl, perr := logrus.ParseLevel(e.Level)
		if perr != nil {
			lvl = logrus.InfoLevel
		}
		func() {
			defer func() {
				if p := recover(); p != nil && lvl != logrus.PanicLevel {
					panic(p)
				}
			}()
			le.Log(lvl, message(e))
		}()
		if message(e) == endMsg {
			markEnd()
		}
	}
	if c.Finalize {
		h.FinalizeChain()
		markEnd()
	}
	return append([]byte(nil), out.Bytes()...), meta, nil
}

// ---------------------------------------------------------------------------------------------
// reader + verifier (real)

// splitLines is the harness' definition of "the lines of the log": bufio.ScanLines without a length limit.
func splitLines(buf []byte) []string {
	sc := bufio.NewScanner(bytes.NewReader(buf))
	sc.Buffer(make([]byte, 0, 64*1024), len(buf)+16)
	var out []string
	for sc.Scan() {
		out = append(out, sc.Text())
	}
	return out
}

var scratchDir string

// readBack runs the real file reader over buf. herr: the harness could not set the file up.
func readBack(buf []byte) (lines []string, numbers []int, err error, herr error) {
	if scratchDir == "" {
		d, derr := os.MkdirTemp("", "c20-")
		if derr != nil {
			return nil, nil, nil, derr
		}
		scratchDir = d
	}
	path := filepath.Join(scratchDir, "audit.log")
	if werr := os.WriteFile(path, buf, 0o600); werr != nil {
		return nil, nil, nil, werr
	}
	src := logging.ReadLogEntries([]string{path}, false, false)
	for e := range src.Entries {
		if e == nil {
			return lines, numbers, errors.New("nil entry from ReadLogEntries"), nil
		}
		lines = append(lines, e.RawLogEntry)
		numbers = append(numbers, e.LineNumber)
	}
	return lines, numbers, src.Error, nil
}

type verdict struct {
	ok   bool
	line int // line index the verifier blames (-1: none given)
	err  string
}

func (v verdict) String() string {
	if v.ok {
		return "verified"
	}
	return fmt.Sprintf("failed at line %d: %s", v.line, v.err)
}

func verify(vs *hx.Vs, format string, key []byte, lines []string) (v verdict, ran bool) {
	parser, err := logging.NewLogParser(format)
	if err != nil {
		vs.Add("harness:parser", "%v", err)
		return v, false
	}
	ver, err := logging.NewIntegrityCheckVerifier(append([]byte(nil), key...), parser)
	if err != nil {
		vs.Add("harness:verifier", "%v", err)
		return v, false
	}
	ch := make(chan *logging.LogEntryInfo, len(lines))
	for i, l := range lines {
		ch <- &logging.LogEntryInfo{RawLogEntry: l, LineNumber: i}
	}
	close(ch)
	var info *logging.LogEntryInfo
	if hx.Guard(vs, "VerifyIntegrityCheck/"+format, func() { info, err = ver.VerifyIntegrityCheck(&logging.LogEntrySource{Entries: ch}) }) {
		return v, false
	}
	if err == nil {
		return verdict{ok: true, line: -1}, true
	}
	v = verdict{line: -1, err: err.Error()}
	if info != nil {
		v.line = info.LineNumber
	}
	return v, true
}

// ---------------------------------------------------------------------------------------------
// independent notions: "line carries an integrity field", "two lines encode the same entry"

func isJSON(format string) bool { return format == logging.JSONFormatString }

func jsonObj(line string) (map[string]interface{}, bool) {
	var m map[string]interface{}
	if err := json.Unmarshal([]byte(line), &m); err != nil || m == nil {
		return nil, false
	}
	return m, true
}

func protected(format, line string) bool {
	if isJSON(format) {
		return strings.Contains(line, `"integrity"`)
	}
	return strings.Contains(line, tokIntegr)
}

func isHex(b byte) bool {
	return b >= '0' && b <= '9' || b >= 'a' && b <= 'f' || b >= 'A' && b <= 'F'
}

// sameEntry: byte-identical, or differing only in the letter case of the hexadecimal tag or in white
// space behind the tag/marker (the authenticated bytes, the tag value and the chain marker are the
// same entry), or — JSON — two encodings of the same JSON document.
func sameEntry(format, a, b string) bool {
	if a == b {
		return true
	}
	if isJSON(format) {
		ma, ok1 := jsonObj(a)
		mb, ok2 := jsonObj(b)
		if !ok1 || !ok2 {
			return false
		}
		for _, m := range []map[string]interface{}{ma, mb} {
			if s, ok := m["integrity"].(string); ok {
				m["integrity"] = strings.ToLower(s)
			}
		}
		return reflect.DeepEqual(ma, mb)
	}
	// white space behind the tag / chain marker is not part of the entry (the CEF formatter itself leaves some)
	a, b = strings.TrimRightFunc(a, unicode.IsSpace), strings.TrimRightFunc(b, unicode.IsSpace)
	ia, ib := strings.LastIndex(a, tokIntegr), strings.LastIndex(b, tokIntegr)
	if ia < 0 || ia != ib || a[:ia] != b[:ib] || len(a) != len(b) {
		return false
	}
	ta, tb := a[ia+len(tokIntegr):], b[ib+len(tokIntegr):]
	n := 0
	for n < len(ta) && isHex(ta[n]) && isHex(tb[n]) {
		n++
	}
	return strings.EqualFold(ta[:n], tb[:n]) && ta[n:] == tb[n:]
}

// ---------------------------------------------------------------------------------------------
// edits

// lineSpans returns [start,end) of every line in buf, end pointing at the '\n' (or len(buf)).
func lineSpans(buf []byte) [][2]int {
	var sp [][2]int
	start := 0
	for i, b := range buf {
		if b == '\n' {
			sp = append(sp, [2]int{start, i})
			start = i + 1
		}
	}
	if start < len(buf) {
		sp = append(sp, [2]int{start, len(buf)})
	}
	return sp
}

type chainSpan struct{ first, last int }

func chains(meta logMeta, nLines int) []chainSpan {
	var cs []chainSpan
	st := append([]int(nil), meta.chainStart...)
	sort.Ints(st)
	for i, s := range st {
		if s >= nLines || (i > 0 && s == st[i-1]) {
			continue
		}
		cs = append(cs, chainSpan{first: s, last: nLines - 1})
	}
	for i := 0; i+1 < len(cs); i++ {
		cs[i].last = cs[i+1].first - 1
	}
	if len(cs) == 0 {
		cs = []chainSpan{{0, nLines - 1}}
	}
	return cs
}

func chainOf(cs []chainSpan, line int) int {
	for i, c := range cs {
		if line >= c.first && line <= c.last {
			return i
		}
	}
	return len(cs) - 1
}

func resolveIndex(e Edit, cs []chainSpan, L []string) int {
	n := len(L)
	if n == 0 {
		return 0
	}
	if e.Anchor == "afterendtext" { // the line behind a line that carries the end-of-chain text anywhere
		var cand []int
		for i := 1; i < n; i++ {
			if strings.Contains(L[i-1], endMsg) {
				cand = append(cand, i)
			}
		}
		if len(cand) > 0 {
			return cand[e.Index%len(cand)]
		}
		return e.Index % n
	}
	if e.Anchor == "" {
		return e.Index % n
	}
	c := cs[e.Index%len(cs)]
	i := c.first
	switch e.Anchor {
	case "chainsecond":
		i = c.first + 1
	case "chainend":
		i = c.last
	case "chainpenult":
		i = c.last - 1
	}
	if i < c.first {
		i = c.first
	}
	if i > c.last {
		i = c.last
	}
	return i
}

// samePos resolves Edit.ToSame: the line at the same offset as idx inside another chain.
func samePos(e Edit, cs []chainSpan, idx int) (int, bool) {
	if !e.ToSame || e.To < 0 || len(cs) < 2 {
		return 0, false
	}
	own := chainOf(cs, idx)
	k := e.To % len(cs)
	if k == own {
		k = (k + 1) % len(cs)
	}
	j := cs[k].first + (idx - cs[own].first)
	if j > cs[k].last {
		j = cs[k].last
	}
	return j, true
}

func join(lines []string) []byte {
	if len(lines) == 0 {
		return nil
	}
	return []byte(strings.Join(lines, "\n") + "\n")
}

// region returns the byte range [a,b) of the named region inside line (offsets relative to the line).
func region(format, name, line string, pos int) (int, int) {
	find := func(lit string, last bool) (int, int, bool) {
		i := strings.Index(line, lit)
		if last {
			i = strings.LastIndex(line, lit)
		}
		if i < 0 {
			return 0, 0, false
		}
		return i, i + len(lit), true
	}
	switch name {
	case "tag":
		lit := tokIntegr
		if isJSON(format) {
			lit = `"integrity":"`
		}
		if _, b, ok := find(lit, true); ok {
			e := b
			for e < len(line) && isHex(line[e]) {
				e++
			}
			if e > b {
				return b, e
			}
		}
	case "marker":
		lits := []string{tokIntegr, " chain=new", "chain=end"}
		if isJSON(format) {
			lits = []string{`"integrity":`, `"chain":"new"`, `"chain":"end"`}
		}
		for k := 0; k < len(lits); k++ {
			if a, b, ok := find(lits[(pos+k)%len(lits)], true); ok {
				return a, b
			}
		}
	case "head":
		if len(line) > 40 {
			return 0, 40
		}
	}
	return 0, len(line)
}

// apply performs the edit on the written log. It returns the edited bytes and whether the edit
// removes lines (then the first line after the gap is "the next protected entry after the change").
func apply(c Case, buf []byte, meta logMeta) (out []byte, removal bool, key []byte, err error) {
	e := c.Edit
	key = c.Key
	L := splitLines(buf)
	n := len(L)
	cs := chains(meta, n)
	if e.Op == "none" || n == 0 {
		return buf, false, key, nil
	}
	idx := resolveIndex(e, cs, L)
	cp := func() []string { return append([]string(nil), L...) }
	switch e.Op {
	case "wrongkey":
		key = e.Key
		if bytes.Equal(key, c.Key) {
			key = append(append([]byte(nil), key...), 1)
		}
		return buf, false, key, nil
	case "changebyte":
		sp := lineSpans(buf)
		if idx >= len(sp) {
			idx = len(sp) - 1
		}
		s := sp[idx]
		line := string(buf[s[0]:s[1]])
		var at int
		if e.Region == "sep" {
			at = s[1]
			if at >= len(buf) {
				at = len(buf) - 1
			}
		} else {
			a, b := region(c.Format, e.Region, line, e.Pos)
			if b <= a {
				a, b = 0, len(line)+1 // empty line: the separator
			}
			at = s[0] + a + e.Pos%(b-a)
		}
		if at >= len(buf) {
			at = len(buf) - 1
		}
		out = append([]byte(nil), buf...)
		x := byte(e.Xor)
		if x == 0 {
			x = 1
		}
		out[at] ^= x
		return out, false, key, nil
	case "delete":
		E := append(cp()[:idx], L[idx+1:]...)
		return join(E), true, key, nil
	case "swap":
		j := 0
		if sp, ok := samePos(e, cs, idx); ok {
			j = sp
		} else if e.To < 0 {
			j = idx + 1
			if j >= n {
				j = idx - 1
			}
		} else {
			j = e.To % n
			if j == idx {
				j = (idx + 1) % n
			}
		}
		if j < 0 {
			j = 0
		}
		E := cp()
		E[idx], E[j] = E[j], E[idx]
		return join(E), false, key, nil
	case "duplicate":
		to := idx + 1
		if sp, ok := samePos(e, cs, idx); ok {
			to = sp
		} else if e.ToEnd {
			to = n
		} else if e.To >= 0 {
			to = e.To % (n + 1)
		}
		E := append(append(cp()[:to], L[idx]), L[to:]...)
		return join(E), false, key, nil
	case "truncate":
		return join(L[:idx]), true, key, nil
	case "cutinside":
		// the file ends inside its last line (a copy interrupted, a tail removed by hand): 1-20 bytes of the
		// last line and its line feed are gone; the integrity token of that line is still there
		last := L[n-1]
		k := 1 + e.Pos%20
		if k >= len(last) {
			k = len(last) - 1
		}
		if k < 1 {
			return buf, false, key, nil
		}
		out = append([]byte(nil), buf...)
		out = out[:len(out)-1-k] // the final line feed and k bytes
		return out, false, key, nil
	case "changelast":
		// one byte of the last line changed and the final line feed removed
		sp := lineSpans(buf)
		s := sp[len(sp)-1]
		if s[1] <= s[0] {
			return buf, false, key, nil
		}
		out = append([]byte(nil), buf[:s[1]]...)
		x := byte(e.Xor)
		if x == 0 {
			x = 1
		}
		at := s[0] + e.Pos%(s[1]-s[0])
		out[at] ^= x
		if out[at] == '\n' {
			out[at] ^= 0x40
		}
		return out, false, key, nil
	case "cuttail":
		k := chainOf(cs, idx)
		if idx == cs[k].first && cs[k].last > cs[k].first {
			idx++ // removing a whole chain is not a single-chain edit
		}
		E := append(cp()[:idx], L[cs[k].last+1:]...)
		return join(E), true, key, nil
	}
	return nil, false, key, fmt.Errorf("unknown op %q", e.Op)
}

// ---------------------------------------------------------------------------------------------
// content features (classes, and the shape part of honest-failure signatures)

var reservedSet = func() map[string]bool {
	m := map[string]bool{}
	for _, n := range reservedNames {
		m[n] = true
	}
	return m
}()

func textFeatures(prefix string, b []byte, f map[string]bool) {
	s := string(b)
	has := func(sub string) bool { return strings.Contains(s, sub) }
	set := func(k string, v bool) {
		if v {
			f[prefix+k] = true
		}
	}
	set("integrity-token", has(tokIntegr))
	set("chain=new", has("chain=new"))
	set("chain=end", has("chain=end"))
	set("endtext", has(endMsg))
	set("linebreak", has("\n") || has("\r"))
	set("quote", has(`"`))
	set("equals", has("="))
	set("pipe", has("|"))
	set("backslash", has(`\`))
	set("non-utf8", !utf8.ValidString(s))
	set("nul", has("\x00"))
}

// features returns the hostile-content kinds present in entry e.
func features(e Entry) map[string]bool {
	f := map[string]bool{}
	msg := message(e)
	textFeatures("msg:", []byte(msg), f)
	if msg == "" {
		f["msg:empty"] = true
	}
	if len(msg) > 60000 {
		f["msg:over-64k"] = true
	} else if len(msg) > 1000 {
		f["msg:long"] = true
	}
	if msg == endMsg {
		f["msg:exact-endtext"] = true
	}
	seen := map[string]bool{}
	for _, fl := range e.Fields {
		n := string(fl.Name)
		textFeatures("name:", fl.Name, f)
		textFeatures("value:", fl.Value, f)
		if reservedSet[n] {
			f["field-named:"+n] = true
		}
		if seen[n] {
			f["name:duplicate"] = true
		}
		seen[n] = true
		if fl.Kind != "" {
			f["value:typed-"+fl.Kind] = true
		}
	}
	return f
}

func hostile(c Case) bool {
	for _, e := range c.Entries {
		if len(features(e)) > 0 {
			return true
		}
	}
	return false
}

// cause names, for the signature of a rejected honest log, the content shape of the entry that wrote
// the blamed line (fixed priority; "other" when none of the listed shapes is present; "service-entry"
// when the line was written by ResetChain/FinalizeChain).
func cause(c Case, meta logMeta, failLine int) string {
	owner := -1
	for i := range c.Entries {
		if i < len(meta.entryLine) && meta.entryLine[i] <= failLine {
			owner = i
		}
	}
	if owner < 0 {
		return "service-entry"
	}
	// lines an entry wrote: from its first line up to the next restart's service lines / next entry
	next := 1 << 30
	if owner+1 < len(meta.entryLine) {
		next = meta.entryLine[owner+1]
		if c.Entries[owner+1].Restart != "" {
			next -= 2
		}
	}
	if failLine >= next {
		return "service-entry"
	}
	all := features(c.Entries[owner])
	switch {
	case strings.EqualFold(message(c.Entries[owner]), endMsg):
		return "end-of-chain-text-as-message"
	case all["field-named:integrity"]:
		return "field-named-integrity"
	case all["field-named:chain"]:
		return "field-named-chain"
	case all["name:linebreak"] && bytesContainLF(c.Entries[owner]):
		return "linebreak-in-field-name"
	case all["msg:integrity-token"]:
		return "integrity-token-in-message"
	case all["name:integrity-token"]:
		return "integrity-token-in-field-name"
	case all["value:integrity-token"]:
		return "integrity-token-in-field-value"
	case all["msg:over-64k"]:
		return "line-over-64k"
	}
	return "other"
}

func bytesContainLF(e Entry) bool {
	for _, f := range e.Fields {
		if bytes.IndexByte(f.Name, '\n') >= 0 {
			return true
		}
	}
	return false
}

func restartKinds(c Case) []string {
	m := map[string]bool{}
	for _, e := range c.Entries {
		if e.Restart != "" {
			m[e.Restart] = true
		}
	}
	if len(m) == 0 {
		return []string{"none"}
	}
	var out []string
	for k := range m {
		out = append(out, k)
	}
	sort.Strings(out)
	return out
}

// ---------------------------------------------------------------------------------------------
// the property

// Result is what Check learnt about the case besides violations (for classes / non-trivial rule).
type Result struct {
	Lines        int
	BaselineOK   bool
	Effect       string // none | noop | prefix | same-entry-respelled | changed | chains-recombined | exempt-tail-junk | wrongkey | baseline-rejected
	FirstChanged int
	TagCaseOnly  bool
}

func excerpt(s string) string {
	if len(s) > 300 {
		return fmt.Sprintf("%q…(%d bytes)", s[:300], len(s))
	}
	return fmt.Sprintf("%q", s)
}

// Check writes the log of c, verifies it unedited, applies the edit and verifies again.
// reportBaseline: the reader is checked too and a rejected honest log is a violation (TestHonest);
// otherwise a rejected honest log only ends the case (TestTamper leaves it to TestHonest).
func Check(c Case, reportBaseline bool) (vs hx.Vs, res Result) {
	res.FirstChanged = -1
	var buf []byte
	var meta logMeta
	var werr error
	if hx.Guard(&vs, "write/"+c.Format, func() { buf, meta, werr = writeLog(c) }) {
		return vs, res
	}
	if werr != nil {
		vs.Add("harness:write", "%v", werr)
		return vs, res
	}
	L := splitLines(buf)
	res.Lines = len(L)

	// (0) the real reader delivers exactly the lines written
	if reportBaseline {
		var rl []string
		var rn []int
		var rerr, herr error
		if !hx.Guard(&vs, "ReadLogEntries", func() { rl, rn, rerr, herr = readBack(buf) }) {
			switch {
			case herr != nil:
				vs.Add("harness:scratch", "%v", herr)
			case rerr != nil:
				vs.Add("reader-error:ReadLogEntries", "reading back an unedited log of %d lines (longest %d bytes): %v", len(L), longest(L), rerr)
			case !reflect.DeepEqual(rl, L):
				at := 0
				for at < len(rl) && at < len(L) && rl[at] == L[at] {
					at++
				}
				shape := "other"
				if at < len(L) && len(L[at]) >= bufio.MaxScanTokenSize-1 {
					shape = "line-over-64k"
				}
				vs.Add("reader-drops-lines:ReadLogEntries:"+shape, "the log has %d lines, ReadLogEntries delivered %d and no error (Error=nil); first missing/different line %d has %d bytes — everything from there on is never verified", len(L), len(rl), at, lineLen(L, at))
			default:
				for i, nmb := range rn {
					if nmb != i {
						vs.Add("reader-line-number:ReadLogEntries", "line %d delivered with LineNumber %d", i, nmb)
						break
					}
				}
			}
		}
	}

	// (1a) unedited: every written line is recognised by the real parser as a protected entry
	// (a line the verifier skips as "no integrity check" is not verified, whatever the final verdict)
	if parser, perr := logging.NewLogParser(c.Format); perr == nil {
		for i, l := range L {
			var err error
			if hx.Guard(&vs, "ParseEntry/"+c.Format, func() { _, err = parser.ParseEntry(l) }) {
				return vs, res
			}
			if err != nil {
				res.Effect = "baseline-rejected"
				if reportBaseline {
					vs.Add("honest-rejected:"+c.Format+":"+cause(c, meta, i), "line %d of an unedited %s log (%d lines, %d entries) is not recognised as a protected entry (%v), so the verifier skips or rejects it: %s", i, c.Format, len(L), len(c.Entries), err, excerpt(l))
				}
				return vs, res
			}
		}
	}

	// (1b) unedited: verifies
	base, ran := verify(&vs, c.Format, c.Key, L)
	if !ran {
		return vs, res
	}
	if !base.ok {
		res.Effect = "baseline-rejected"
		if reportBaseline {
			culprit := ""
			if base.line >= 0 && base.line < len(L) {
				culprit = "; blamed line: " + excerpt(L[base.line])
				if base.line > 0 {
					culprit += "; line before: " + excerpt(L[base.line-1])
				}
			}
			vs.Add("honest-rejected:"+c.Format+":"+cause(c, meta, base.line), "an unedited %s log of %d lines (%d entries) %s%s", c.Format, len(L), len(c.Entries), base, culprit)
		}
		return vs, res
	}
	res.BaselineOK = true
	if c.Edit.Op == "none" {
		res.Effect = "none"
		return vs, res
	}

	// (2) edit
	ebuf, removal, key, aerr := apply(c, buf, meta)
	if aerr != nil {
		vs.Add("harness:edit", "%v", aerr)
		return vs, res
	}
	E := splitLines(ebuf)
	// the edited file goes the way acra-log-verifier takes: the real reader, then the verifier. A reader
	// that fails is a failed verification; lines it drops are simply not verified
	var rl []string
	var rerr, herr error
	if hx.Guard(&vs, "ReadLogEntries", func() { rl, _, rerr, herr = readBack(ebuf) }) {
		return vs, res
	}
	if herr != nil {
		vs.Add("harness:readback", "%v", herr)
		return vs, res
	}
	var got verdict
	if rerr != nil {
		got = verdict{line: -1, err: "ReadLogEntries: " + rerr.Error()}
	} else {
		var ran bool
		if got, ran = verify(&vs, c.Format, key, rl); !ran {
			return vs, res
		}
	}
	op := c.Edit.Op
	firstProtected := func(from int) int {
		for i := from; i < len(E); i++ {
			if i >= 0 && protected(c.Format, E[i]) {
				return i
			}
		}
		return -1
	}
	if op == "wrongkey" {
		res.Effect = "wrongkey"
		fp := firstProtected(0)
		if fp < 0 {
			return vs, res
		}
		res.FirstChanged = fp
		if got.ok {
			vs.Add("wrongkey-accepted:"+c.Format, "log written with key %x verifies with key %x", []byte(c.Key), key)
		} else if got.line > fp {
			vs.Add("wrongkey-late:"+c.Format, "with another key verification %s, the first protected entry is line %d", got, fp)
		}
		return vs, res
	}
	// where do the edited and the original log part?
	p := 0
	for p < len(E) && p < len(L) && sameEntry(c.Format, E[p], L[p]) {
		if E[p] != L[p] {
			res.TagCaseOnly = true
		}
		p++
	}
	if p == len(E) { // E is L or a prefix of L: nothing changed, or tail truncation (exempt) — an honest prefix is an honest log
		res.Effect = "prefix"
		if len(E) == len(L) {
			res.Effect = "noop"
		}
		if res.TagCaseOnly {
			// some line is a different spelling of the same entry (tag letter case, trailing white space,
			// JSON re-encoding): accepting and rejecting it are both fine
			res.Effect = "same-entry-respelled"
		} else if !got.ok {
			vs.Add("prefix-rejected:"+c.Format, "the first %d of %d lines of a log that verifies do not verify: %s", len(E), len(L), got)
		}
		return vs, res
	}
	res.FirstChanged = p
	bound := -1
	if removal {
		bound = firstProtected(p)
	} else {
		bound = firstProtected(p + 1)
		if bound < 0 && protected(c.Format, E[p]) {
			bound = p
		}
	}
	if bound < 0 { // what follows the change is unprotected junk only: equivalent to tail truncation
		res.Effect = "exempt-tail-junk"
		return vs, res
	}
	res.Effect = "changed"
	shape := op
	if !isJSON(c.Format) && strings.Count(E[p], tokIntegr) > 1 {
		// the changed line holds the integrity token more than once (e.g. two entries glued by an edited separator)
		shape = "line-with-several-integrity-tokens"
	}
	if got.ok && recombined(c.Format, L, E, chains(meta, len(L)), meta.endLine) {
		res.Effect = "chains-recombined"
		vs.Add("tamper-accepted:chains-recombined", "edit %s (first changed line %d of %d, now %s) leaves a sequence of intact chains / chain prefixes of the original log, each but the last one properly ended, and the log still verifies: nothing binds a chain to its predecessor, so entries between an end-of-chain entry and a later chain start can be dropped and a chain prefix can be replayed after an ended chain",
			op, p, len(L), excerpt(E[p]))
	} else if got.ok {
		vs.Add("tamper-accepted:"+c.Format+":"+shape, "edit %s (first changed line %d of %d, now %s; was %s) and the log still verifies; it must fail no later than at line %d",
			op, p, len(L), excerpt(E[p]), excerpt(lineAt(L, p)), bound)
	} else if got.line > bound {
		vs.Add("tamper-late:"+c.Format+":"+shape, "edit %s first changes line %d, the next protected entry is line %d, but verification %s", op, p, bound, got)
	}
	return vs, res
}

// recombined tells whether the protected lines of E are a concatenation of pieces, each piece being
// a prefix of one chain of L starting at that chain's first line, every piece but the last ending
// with an end-of-chain entry. Such a log is what an honest writer could have produced chain by
// chain; the design has nothing that links chains.
func recombined(format string, L, E []string, cs []chainSpan, isEnd map[int]bool) bool {
	var P []string
	for _, l := range E {
		if protected(format, l) {
			P = append(P, l)
		}
	}
	memo := map[int]bool{}
	var can func(i int) bool
	can = func(i int) bool {
		if i == len(P) {
			return true
		}
		if v, ok := memo[i]; ok {
			return v
		}
		memo[i] = false
		for _, ch := range cs {
			for m := 0; ch.first+m <= ch.last && i+m < len(P) && L[ch.first+m] == P[i+m]; m++ {
				if i+m+1 == len(P) || (isEnd[ch.first+m] && can(i+m+1)) {
					memo[i] = true
					return true
				}
			}
		}
		return false
	}
	return len(P) > 0 && can(0)
}

func lineAt(L []string, i int) string {
	if i >= 0 && i < len(L) {
		return L[i]
	}
	return "<none>"
}

func lineLen(L []string, i int) int { return len(lineAt(L, i)) }

func longest(L []string) int {
	m := 0
	for _, l := range L {
		if len(l) > m {
			m = len(l)
		}
	}
	return m
}

func nontrivial(c Case, res Result) bool {
	if len(c.Entries) < 3 || !res.BaselineOK {
		return false
	}
	if hostile(c) {
		return true
	}
	return (res.Effect == "changed" || res.Effect == "wrongkey") && res.FirstChanged >= 0 && res.FirstChanged < res.Lines-1
}

func classes(c Case, res Result) []string {
	cl := []string{"format:" + c.Format, "entries:" + sizeClass(len(c.Entries))}
	op := c.Edit.Op
	cl = append(cl, "op:"+c.Format+"/"+op)
	if op == "changebyte" {
		cl = append(cl, "region:"+c.Edit.Region)
	}
	if c.Edit.Anchor != "" && op != "none" && op != "wrongkey" {
		cl = append(cl, "anchor:"+c.Edit.Anchor)
	}
	if c.Edit.ToSame && (op == "swap" || op == "duplicate") {
		cl = append(cl, "partner:same-offset-in-another-chain/"+op)
	}
	if res.Effect != "" {
		cl = append(cl, "effect:"+res.Effect, "effect:"+c.Format+"/"+op+"/"+res.Effect)
	}
	if res.TagCaseOnly {
		cl = append(cl, "effect:some-line-respelled(same entry)")
	}
	fs := map[string]bool{}
	for _, e := range c.Entries {
		for k := range features(e) {
			fs[k] = true
		}
	}
	if len(fs) == 0 {
		cl = append(cl, "content:plain-only")
	}
	for k := range fs {
		cl = append(cl, "content:"+c.Format+"/"+k)
	}
	for _, k := range restartKinds(c) {
		cl = append(cl, "restart:"+c.Format+"/"+k)
		if op != "none" {
			cl = append(cl, "restart-op:"+k+"/"+op)
		}
	}
	if c.Finalize {
		cl = append(cl, "finalized-log")
	}
	sort.Strings(cl)
	return cl
}

func sizeClass(n int) string {
	switch {
	case n < 3:
		return "1-2"
	case n <= 10:
		return "3-10"
	default:
		return "11-30"
	}
}

// ---------------------------------------------------------------------------------------------
// tests

func TestHonest(t *testing.T) {
	R.Rule("TestHonest", "1-30 entries (message/field names/field values assembled from plain words, hostile literals — line breaks, quotes, =, |, backslashes, ' integrity=', chain=new/end, the end-of-chain text, non-UTF-8, NUL —, reserved and duplicate field names, typed values, empty/long/over-64KiB messages; levels debug..panic; ResetChain / service restart / FinalizeChain at generated points) written in plaintext|json|cef through the real formatter, hooks and AuditLogHandler; oracle: ReadLogEntries delivers every line and VerifyIntegrityCheck accepts the log with the same key; non-trivial = at least 3 entries and hostile content")
	hx.Checks(300, 8000)
	rapid.Check(t, func(rt *rapid.T) {
		c := genLog(rt)
		vs, res := Check(c, true)
		R.Seen("TestHonest", c, nontrivial(c, res), classes(c, res)...)
		R.Report(rt, "TestHonest", c, vs)
	})
}

func TestTamper(t *testing.T) {
	R.Rule("TestTamper", "a log generated as in TestHonest that verifies, then one edit: xor of one byte (anywhere / in the tag / in the integrity or chain marker / the line separator / the header), deletion of a line, swap of two lines, duplication of a line (next to the original, anywhere, appended), tail truncation, removal of the tail of a non-final chain, another key; positions absolute or anchored to the first/second/last/penultimate line of a chain. Oracle: edited log identical to the original or a prefix of it => still verifies; otherwise verification fails no later than at the next line carrying an integrity field after the first changed line (the line after a removal; the changed line itself when it is the last); exempt: only unprotected junk follows the change (= tail truncation), a change of the letter case of the hex tag / a re-encoding of the same JSON document (same entry). Logs whose unedited form is rejected are left to TestHonest. Non-trivial = at least 3 entries and (hostile content or first changed line before the last line)")
	hx.Checks(350, 12000)
	rapid.Check(t, func(rt *rapid.T) {
		c := genLog(rt)
		c.Edit = genEdit(rt, c.Key)
		vs, res := Check(c, false)
		R.Seen("TestTamper", c, nontrivial(c, res), classes(c, res)...)
		R.Report(rt, "TestTamper", c, vs)
	})
}

// ---------------------------------------------------------------------------------------------
// golden logs: written once by the pinned tree (C20_WRITE_GOLDEN=1 go test -run TestGolden), they must
// keep verifying — a change applied consistently to writer and verifier (tag input, key schedule)
// is invisible to the round-trip tests but makes every existing log unverifiable.

type goldenCase struct {
	Format string `json:"format"`
	Drop   int    `json:"drop"` // -1: the log as stored; i >= 0: line i removed
}

var goldenKey = []byte("golden-audit-log-key-0123456789a")

func goldenLog(format string) Case {
	s := func(x string) gen.Hex { return gen.Hex(x) }
	return Case{Format: format, Key: goldenKey, Finalize: true, Edit: Edit{Op: "none"}, Entries: []Entry{
		{Msg: s("Starting service acra-server [pid=4242]"), Level: "info", Fields: []Field{{Name: s("version"), Value: s("0.96.0")}}},
		{Msg: s("query \"select 1\"\n-- second line | a=b \\ end"), Level: "debug", Fields: []Field{{Name: s("client_id"), Value: s("client \"one\"=|\\\n")}, {Name: s("port"), Value: s("9393"), Kind: "int"}}},
		{Msg: s(""), Level: "warning", Fields: []Field{{Name: s("msg"), Value: s("shadowed")}, {Name: s("time"), Value: s("never")}, {Name: s("unixTime"), Value: s("0"), Kind: "int"}}},
		{Msg: s("bytes \xff\xfe\x00 and chain=new inside"), Level: "error", Fields: []Field{{Name: s("error"), Value: s("boom: chain=new"), Kind: "err"}, {Name: s("ratio"), Value: s("1.5"), Kind: "float"}}},
		{Msg: s("after reset"), Level: "info", Restart: "reset"},
		{Msg: s("second entry after reset"), Level: "info", Fields: []Field{{Name: s("ok"), Value: s("true"), Kind: "bool"}}},
		{Msg: s("after restart"), Level: "info", Restart: "restart"},
		{Msg: s("last one"), Level: "fatal"},
	}}
}

func goldenPath(format string) string { return filepath.Join("testdata", "golden-"+format+".log") }

func checkGolden(g goldenCase) (vs hx.Vs) {
	buf, err := os.ReadFile(goldenPath(g.Format))
	if err != nil {
		vs.Add("harness:golden", "%v", err)
		return vs
	}
	L := splitLines(buf)
	if g.Drop < 0 {
		var rl []string
		var rerr, herr error
		if hx.Guard(&vs, "ReadLogEntries", func() { rl, _, rerr, herr = readBack(buf) }) {
			return vs
		}
		if herr != nil {
			vs.Add("harness:scratch", "%v", herr)
			return vs
		}
		if rerr != nil || !reflect.DeepEqual(rl, L) {
			vs.Add("reader-drops-lines:ReadLogEntries:golden", "ReadLogEntries delivered %d of %d lines, error %v", len(rl), len(L), rerr)
		}
		if got, ran := verify(&vs, g.Format, goldenKey, L); ran && !got.ok {
			vs.Add("golden-rejected:"+g.Format, "a %s log written by the pinned revision (%s) no longer verifies: %s; blamed line %s", g.Format, goldenPath(g.Format), got, excerpt(lineAt(L, got.line)))
		}
		return vs
	}
	if g.Drop >= len(L)-1 {
		return vs
	}
	E := append(append([]string(nil), L[:g.Drop]...), L[g.Drop+1:]...)
	if got, ran := verify(&vs, g.Format, goldenKey, E); ran && (got.ok || got.line > g.Drop) {
		vs.Add("tamper-accepted:"+g.Format+":golden-delete", "golden %s log with line %d of %d removed: %s", g.Format, g.Drop, len(L), got)
	}
	return vs
}

func TestGolden(t *testing.T) {
	if os.Getenv("C20_WRITE_GOLDEN") != "" {
		os.MkdirAll("testdata", 0o755)
		for _, f := range formats {
			buf, _, err := writeLog(goldenLog(f))
			if err != nil {
				t.Fatal(err)
			}
			if err := os.WriteFile(goldenPath(f), buf, 0o644); err != nil {
				t.Fatal(err)
			}
		}
	}
	if hx.Shard() != 0 {
		t.Skip("golden logs are checked in shard 0")
	}
	R.Rule("TestGolden", "one stored log per format (hostile but verifiable content, ResetChain, restart, finalize) written by the pinned revision: must be read completely and verify; with any single line but the last removed it must fail no later than at the line that took its place")
	for _, f := range formats {
		buf, _ := os.ReadFile(goldenPath(f))
		n := len(splitLines(buf))
		for drop := -1; drop < n-1; drop++ {
			g := goldenCase{Format: f, Drop: drop}
			vs := checkGolden(g)
			R.Seen("TestGolden", g, drop >= 0, "format:"+f)
			R.Report(t, "TestGolden", g, vs)
		}
	}
}

func replayCase(report bool) hx.ReplayHandler {
	return func(raw json.RawMessage) hx.Vs {
		var c Case
		if err := json.Unmarshal(raw, &c); err != nil {
			return hx.Vs{{Sig: "harness:decode", Msg: err.Error()}}
		}
		vs, _ := Check(c, report)
		return vs
	}
}

func TestReplay(t *testing.T) {
	R.Replay(t, map[string]hx.ReplayHandler{
		"TestHonest":        replayCase(true),
		"TestTamper":        replayCase(false),
		"FuzzHonestContent": replayCase(true),
		"TestGolden": func(raw json.RawMessage) hx.Vs {
			var g goldenCase
			if err := json.Unmarshal(raw, &g); err != nil {
				return hx.Vs{{Sig: "harness:decode", Msg: err.Error()}}
			}
			return checkGolden(g)
		},
	})
}

// fuzzCase embeds fuzzed content between plain entries, with a chain restart behind it.
func fuzzCase(format string, msg, name, value []byte) Case {
	plain := func(i int) Entry {
		return Entry{Msg: gen.Hex(fmt.Sprintf("Plain message number %d", i)), Level: "info"}
	}
	after := plain(2)
	after.Restart = "reset"
	return Case{Format: format, Key: gen.Hex("0123456789abcdef0123456789abcdef"), Finalize: true, Edit: Edit{Op: "none"},
		Entries: []Entry{plain(0), {Msg: msg, Level: "info", Fields: []Field{{Name: name, Value: value}}}, plain(1), after, plain(3)}}
}

// FuzzHonestContent: whatever one message, field name and field value contain, the log verifies
// in all three formats.
func FuzzHonestContent(f *testing.F) {
	for _, h := range hostileLits {
		f.Add([]byte("msg "+h+" tail"), []byte("field"), []byte(h))
		f.Add([]byte("message"), []byte(h), []byte("value"))
	}
	for _, n := range reservedNames {
		f.Add([]byte("message"), []byte(n), []byte("new"))
	}
	f.Add([]byte(endMsg), []byte("chain"), []byte("end"))
	f.Fuzz(func(t *testing.T, msg, name, value []byte) {
		for _, format := range formats {
			c := fuzzCase(format, msg, name, value)
			vs, res := Check(c, true)
			R.Seen("FuzzHonestContent", c, res.BaselineOK && hostile(c), "format:"+format)
			for _, v := range vs {
				if R.IsKnown(v.Sig) {
					continue
				}
				b, _ := json.Marshal(c)
				t.Fatalf("violation %s: %s\ncase: %s", v.Sig, v.Msg, b)
			}
		}
	})
}
