package c09

import (
	"bytes"
	"context"
	"fmt"
	"net"
	"sort"
	"strconv"
	"strings"
	"sync"
	"testing"

	pg_query "github.com/cossacklabs/pg_query_go/v5"
	"pgregory.net/rapid"

	"github.com/cossacklabs/acra/decryptor/base"
	pgproxy "github.com/cossacklabs/acra/decryptor/postgresql"
	"github.com/cossacklabs/acra/encryptor/base/config"
	pgenc "github.com/cossacklabs/acra/encryptor/postgresql"
	pghash "github.com/cossacklabs/acra/hmac/decryptor/postgresql"
	"github.com/cossacklabs/acra/sqlparser"
	pgdialect "github.com/cossacklabs/acra/sqlparser/dialect/postgresql"

	"verif/internal/fix"
	"verif/internal/hx"
	"verif/internal/pgprog"
	"verif/internal/pgsess"
)

// memSession is a minimal base.ClientSession (the observers keep placeholder settings in it).
type memSession struct {
	mu   sync.Mutex
	data map[string]interface{}
}

func newMemSession() *memSession                   { return &memSession{data: map[string]interface{}{}} }
func (s *memSession) Context() context.Context     { return context.Background() }
func (s *memSession) ClientConnection() net.Conn   { return nil }
func (s *memSession) DatabaseConnection() net.Conn { return nil }
func (s *memSession) ProtocolState() interface{}   { return nil }
func (s *memSession) SetProtocolState(interface{}) {}
func (s *memSession) GetData(k string) (interface{}, bool) {
	s.mu.Lock()
	defer s.mu.Unlock()
	v, ok := s.data[k]
	return v, ok
}
func (s *memSession) SetData(k string, v interface{}) { s.mu.Lock(); s.data[k] = v; s.mu.Unlock() }
func (s *memSession) DeleteData(k string)             { s.mu.Lock(); delete(s.data, k); s.mu.Unlock() }
func (s *memSession) HasData(k string) bool           { _, ok := s.GetData(k); return ok }

// ---------------------------------------------------------------------------------------------
// rendering (PostgreSQL): shared with the session layer

type rendered struct {
	SQL    string
	Params []pgprog.Val
	PTypes []pgsess.ColType
	PFmts  []int16
	Search []bool // the parameter is the value of a comparison on the searchable column
}

func (c Case) quals() (tq, idq string) {
	switch {
	case c.Q.Derived != nil:
		return "d.", "d." // the derived table's alias
	case c.Q.Alias:
		return "q.", "q."
	case c.Q.Qualify:
		return "t.", "t."
	case c.Q.Join && c.UCol != nil:
		return "t.", "t." // s exists in both tables
	case c.Q.Join:
		return "", "t." // id exists in both tables
	}
	return "", ""
}

// uq is the qualifier of the joined table's columns.
func (c Case) uq() string {
	if c.Q.UAlias {
		return "v."
	}
	return "u."
}

// sCol is the column a searchable comparison is written on; search tells whether that column is searchable.
func (c Case) sCol(k Cond) (name string, search bool) {
	if k.Tab == "u" {
		return c.uq() + "s", c.uSearch()
	}
	tq, _ := c.quals()
	return tq + "s", true
}

// tableRef renders table t in a FROM clause: t [AS q] or the derived table (SELECT id, s, p, n FROM t [AS q] [WHERE ..]) AS d.
func (c Case) tableRef() string {
	d := c.Q.Derived
	if d == nil {
		if c.Q.Alias {
			return "t AS q"
		}
		return "t"
	}
	iq, from := "", "t"
	switch d.Cols {
	case "qualified":
		iq = "t."
	case "inner-alias":
		iq, from = "q.", "t AS q"
	}
	var b strings.Builder
	fmt.Fprintf(&b, "(SELECT %sid, %ss, %sp, %sn FROM %s", iq, iq, iq, iq, from)
	if f := d.Filter; f != nil && f.K == "plain" {
		arg := f.Arg
		if f.Col == "p" {
			arg = "'" + arg + "'"
		}
		fmt.Fprintf(&b, " WHERE %s%s %s %s", iq, f.Col, f.Op, arg)
	}
	b.WriteString(") AS d")
	return b.String()
}

// fromClause renders FROM <t> [JOIN u [AS v] ON ... [AND cond]], <t> being table t, t AS q or a derived table over t.
func (c Case) fromClause(cond func(Cond) string) string {
	_, idq := c.quals()
	var b strings.Builder
	first, second := c.tableRef(), "u"
	if c.Q.UAlias {
		second += " AS v"
	}
	if c.Q.Derived != nil && c.Q.Derived.Right && c.Q.Join {
		first, second = second, first
	}
	b.WriteString(" FROM " + first)
	if c.Q.Join && c.Q.Comma {
		// table list: the join condition (and what would stand in ON) leads the WHERE clause
		b.WriteString(", " + second)
		b.WriteString(" WHERE ")
		if c.Q.OnFlip {
			fmt.Fprintf(&b, "%sref = %sid", c.uq(), idq)
		} else {
			fmt.Fprintf(&b, "%sid = %sref", idq, c.uq())
		}
		if c.Q.On != nil {
			b.WriteString(" AND " + cond(*c.Q.On))
		}
		b.WriteString(" AND ")
		return b.String()
	}
	if c.Q.Join {
		b.WriteString(" JOIN " + second)
		if c.Q.OnFlip {
			fmt.Fprintf(&b, " ON %sref = %sid", c.uq(), idq)
		} else {
			fmt.Fprintf(&b, " ON %sid = %sref", idq, c.uq())
		}
		if c.Q.On != nil {
			b.WriteString(" AND " + cond(*c.Q.On))
		}
	}
	return b.String()
}

func tOwnerName(c Case) []byte {
	if c.Col.ClientID != "" {
		return []byte(c.Col.ClientID)
	}
	return []byte("alice")
}

func uOwnerOf(c Case) []byte {
	if c.UCol != nil && c.UCol.ClientID != "" {
		return []byte(c.UCol.ClientID)
	}
	return []byte("alice")
}

func uEnvelopeKind(c Case) string {
	if c.UCol != nil && c.UCol.Envelope == "acrastruct" {
		return fix.KindStruct
	}
	return fix.KindBlock
}

func renderPG(c Case) rendered {
	var r rendered
	lt := c.Col.Logical()
	tq, idq := c.quals()
	param := func(v pgprog.Val, t pgsess.ColType, f int16, search bool) string {
		r.Params = append(r.Params, v)
		r.PTypes = append(r.PTypes, t)
		r.PFmts = append(r.PFmts, f)
		r.Search = append(r.Search, search)
		return fmt.Sprintf("$%d", len(r.Params))
	}
	var cond func(k Cond) string
	cond = func(k Cond) string {
		switch k.K {
		case "s":
			var val string
			scol, search := c.sCol(k)
			switch k.Form {
			case "cast":
				val = pgprog.Literal(k.Val, lt, k.Spell, true)
			case "ptext":
				val = param(k.Val, lt, 0, search)
			case "pbin":
				val = param(k.Val, lt, 1, search)
			case "pcast":
				val = param(k.Val, lt, 0, search)
				if lt == pgsess.Text {
					val += "::text"
				} else {
					val += "::bytea"
				}
			default:
				val = pgprog.Literal(k.Val, lt, k.Spell, false)
			}
			op := "="
			if k.Neg {
				op = "<>"
				if k.Bang {
					op = "!="
				}
			}
			if k.NS {
				op = "IS NOT DISTINCT FROM"
				if k.Neg {
					op = "IS DISTINCT FROM"
				}
			}
			if k.Flip {
				return val + " " + op + " " + scol
			}
			return scol + " " + op + " " + val
		case "plain":
			col, t := tq+k.Col, pgsess.Text
			switch k.Col {
			case "id":
				col, t = idq+"id", pgsess.Int4
			case "n":
				t = pgsess.Int4
			case "tag":
				col = c.uq() + "tag"
			}
			var val string
			switch {
			case k.PForm == "ptext":
				val = param(pgprog.Val{B: []byte(k.Arg)}, t, 0, false)
			case k.PForm == "pbin":
				val = param(pgprog.Val{B: []byte(k.Arg)}, t, 1, false)
			case t == pgsess.Int4:
				val = k.Arg
			default:
				val = "'" + k.Arg + "'"
			}
			return col + " " + k.Op + " " + val
		case "ss":
			op := "="
			if k.Neg {
				op = "<>"
			}
			if k.Flip {
				return c.uq() + "s " + op + " " + tq + "s"
			}
			return tq + "s " + op + " " + c.uq() + "s"
		case "not":
			return "NOT (" + cond(k.Kids[0]) + ")"
		}
		var parts []string
		for _, kid := range k.Kids {
			parts = append(parts, cond(kid))
		}
		return "(" + strings.Join(parts, " "+strings.ToUpper(k.K)+" ") + ")"
	}
	var b strings.Builder
	if c.Q.Sub && !c.Q.Join && !c.Q.Alias {
		fmt.Fprintf(&b, "SELECT id, s FROM t WHERE id IN (SELECT %sid FROM t WHERE %s)", idq, cond(c.Q.Where))
		r.SQL = b.String()
		return r
	}
	fmt.Fprintf(&b, "SELECT %sid, %ss", idq, tq)
	if c.Q.Join {
		b.WriteString(", " + c.uq() + "tag")
	}
	// the ON clause comes first in the text: its placeholders are numbered first
	b.WriteString(c.fromClause(cond))
	if c.Q.Join && c.Q.Comma {
		b.WriteString("(" + cond(c.Q.Where) + ")")
	} else {
		b.WriteString(" WHERE " + cond(c.Q.Where))
	}
	r.SQL = b.String()
	return r
}

func envelopeKind(c Case) string {
	if c.Col.Envelope == "acrastruct" {
		return fix.KindStruct
	}
	return fix.KindBlock
}

func ownerOf(c Case, w *fix.World) []byte {
	if c.Col.ClientID != "" {
		return []byte(c.Col.ClientID)
	}
	return w.Alice
}

// storedRows produces what the write side leaves in the database for the case's rows (component layers).
func storedRows(c Case, w *fix.World, vs *hx.Vs) (trows, urows [][]pgsess.Value, ok bool) {
	for i, r := range c.Rows {
		sv := pgsess.Value{Null: r.S.Null}
		switch {
		case r.S.Null:
		case len(r.S.B) == 0:
			sv.B = []byte{} // documented: NULL and empty values are stored as they are
		default:
			wr := writerByName(r.W, envelopeKind(c))
			if wr == nil {
				vs.Add("harness:writer", "unknown writer %q", r.W)
				return nil, nil, false
			}
			out, err := wr.F(w, ownerOf(c, w), append([]byte(nil), r.S.B...), envelopeKind(c))
			if err != nil {
				vs.Add("write-error:"+wr.Name, "%s failed for a %d-byte plaintext: %v", wr.Name, len(r.S.B), err)
				return nil, nil, false
			}
			sv.B = out
		}
		trows = append(trows, []pgsess.Value{{B: []byte(strconv.Itoa(i + 1))}, sv, {B: []byte(r.P)}, {B: []byte(strconv.Itoa(r.N))}})
	}
	for i, u := range c.U {
		row := []pgsess.Value{{B: []byte(strconv.Itoa(i + 1))}, {B: []byte(strconv.Itoa(u.Ref))}, {B: []byte(u.Tag)}}
		if c.UCol != nil {
			sv := pgsess.Value{Null: true}
			if u.S != nil {
				sv = pgsess.Value{Null: u.S.Null, B: u.S.B}
			}
			if c.uSearch() && !sv.Null && len(sv.B) > 0 {
				// written through a write entry point for the column's own key owner and envelope
				name := u.W
				if name == "" {
					name = "writeChain"
				}
				wr := writerByName(name, uEnvelopeKind(c))
				if wr == nil {
					vs.Add("harness:writer", "unknown writer %q", u.W)
					return nil, nil, false
				}
				out, err := wr.F(w, uOwnerOf(c), append([]byte(nil), sv.B...), uEnvelopeKind(c))
				if err != nil {
					vs.Add("write-error:"+wr.Name, "%s failed for a %d-byte plaintext: %v", wr.Name, len(sv.B), err)
					return nil, nil, false
				}
				sv.B = out
			}
			row = append(row, sv)
		}
		urows = append(urows, row)
	}
	return trows, urows, true
}

// CheckRewritePG drives the PostgreSQL HashQuery observer and evaluates what it emits literally.
func CheckRewritePG(c Case) (vs hx.Vs) {
	sqlparser.SetDefaultDialect(pgdialect.NewPostgreSQLDialect())
	w := fix.TheWorld()
	c, rerr := resolve(c)
	if rerr != nil {
		vs.Add("harness:resolve", "%v", rerr)
		return
	}
	tabs := tables(c)
	schema, err := config.MapTableSchemaStoreFromConfig([]byte(pgprog.SchemaYAML(tabs)), false)
	if err != nil {
		vs.Add("harness:schema", "%v\n%s", err, pgprog.SchemaYAML(tabs))
		return
	}
	trows, urows, ok := storedRows(c, w, &vs)
	if !ok {
		return
	}
	store := pgsess.NewStore(pgprog.Defs(tabs))
	store.SetRows("t", trows)
	store.SetRows("u", urows)

	r := renderPG(c)
	sig := func(kind string) string { return condSig(kind, c, "pg") }
	ctx := base.SetClientSessionToContext(fix.Ctx(w.Alice), newMemSession())
	hq := pghash.NewHashQuery(w.KS, schema, w.Reg)
	outSQL := r.SQL
	var qerr error
	if hx.Guard(&vs, "HashQuery.OnQuery:pg", func() {
		obj, changed, err := hq.OnQuery(ctx, pgenc.NewOnQueryObjectFromQuery(r.SQL))
		qerr = err
		if err == nil && changed {
			outSQL, qerr = obj.Query()
		}
	}) {
		return
	}
	if qerr != nil {
		vs.Add(sig("rewrite-error"), "OnQuery(%.200s): %v", r.SQL, qerr)
		return
	}
	var params []pgsess.Param
	if len(r.Params) > 0 {
		tree, err := pg_query.Parse(outSQL)
		if err != nil {
			vs.Add(sig("emitted-statement-unparseable"), "%.300s: %v", outSQL, err)
			return
		}
		var values []base.BoundValue
		for i, v := range r.Params {
			f := base.TextFormat
			if r.PFmts[i] == 1 {
				f = base.BinaryFormat
			}
			values = append(values, pgproxy.NewPgBoundValue(pgprog.ParamBytes(v, r.PTypes[i], r.PFmts[i]), f))
		}
		newVals := values
		var berr error
		if hx.Guard(&vs, "HashQuery.OnBind:pg", func() {
			nv, changed, err := hq.OnBind(ctx, tree, values)
			berr = err
			if err == nil && changed {
				newVals = nv
			}
		}) {
			return
		}
		if berr != nil {
			vs.Add(sig("bind-error"), "OnBind(%.200s): %v", outSQL, berr)
			return
		}
		if len(newVals) != len(values) {
			vs.Add(sig("bind-count"), "OnBind returned %d values for %d parameters", len(newVals), len(values))
			return
		}
		for i, v := range newVals {
			d, _ := v.GetData(nil)
			p := pgsess.Param{Format: r.PFmts[i], Data: d, Null: d == nil}
			if (v.Format() == base.BinaryFormat) != (r.PFmts[i] == 1) {
				vs.Add(sig("bind-format-changed"), "parameter %d changed its format", i+1)
			}
			params = append(params, p)
		}
	}
	// the search terms never reach the database in clear
	hay := []byte(outSQL)
	for _, p := range params {
		hay = append(append(hay, 0), p.Data...)
	}
	for _, m := range secretMarkers(c) {
		if containsMarker(hay, m) {
			vs.Add(sig("search-term-in-clear"), "what the database would receive holds the plaintext marker %s: %.300s", m, outSQL)
			break
		}
	}
	if v := clearInts(c, []byte(outSQL)); v != nil {
		vs.Add(sig("search-term-in-clear"), "the emitted statement holds the searched integer %s: %.300s", v, outSQL)
	}
	for i, p := range params {
		if r.Search[i] && isInt(r.PTypes[i]) && !p.Null && bytes.Equal(p.Data, pgprog.ParamBytes(r.Params[i], r.PTypes[i], r.PFmts[i])) {
			vs.Add(sig("search-term-in-clear"), "parameter $%d still holds the searched integer %s", i+1, r.Params[i].B)
		}
	}
	// literal evaluation of what was emitted
	prep, err := store.Prepare(outSQL, nil)
	if err != nil {
		vs.Add(sig("emitted-statement-rejected"), "%.300s: %v", outSQL, err)
		return
	}
	res, err := store.Exec(prep, params)
	if err != nil {
		vs.Add(sig("emitted-statement-rejected"), "%.300s: %v", outSQL, err)
		return
	}
	want, dontCare, _ := expect(c)
	var got []int
	for _, row := range res.Rows {
		id, _ := strconv.Atoi(string(row[0].B))
		if !dontCare[id] {
			got = append(got, id)
		}
	}
	sort.Ints(got)
	if !sameIDs(got, want) {
		vs.Add(sig("result-set"), "rows selected %v, rows whose plaintext satisfies the condition %v\n  sent:    %.300s\n  emitted: %.400s", got, want, r.SQL, outSQL)
	}
	return
}

func TestRewritePG(t *testing.T) {
	R.Rule("TestRewritePG", "searchable column configuration (envelope x declared type x failure policy x explicit/implicit client, from the combinations the real loader accepts) + 1-12 stored plaintexts (pool with duplicates, prefixes/extensions of one another, empty, long, NULL, quotes/backslashes) written through a write entry point (SearchableEncryptor, write chain, client-side envelope, translator, library) + SELECT id, s FROM t [AS q] [JOIN u ON ..] WHERE cond; cond from {col op value, value op col} x {=, <>, !=, IS NOT DISTINCT FROM, IS DISTINCT FROM (null-safe; also with NULL as the value)} x {literal spellings, cast, $n text, $n binary} combined with AND/OR/NOT and predicates on plain columns (literal or placeholder); table t may be read through a derived table, FROM (SELECT id, s, p, n FROM t | t.id, .. FROM t | q.id, .. FROM t AS q [WHERE plain condition]) AS d [JOIN u | u JOIN d | table list], conditions on d.s (with an unconfigured u no table named in the outer FROM has a schema). The statement goes through HashQuery.OnQuery (+OnBind on the emitted statement); the emitted statement is executed literally by the typed fake database over the stored values. Oracle: multiset of selected ids = model (three-valued logic over plaintexts; null-safe comparisons are never unknown: two NULLs equal, NULL and a value distinct; rows failing the condition inside a derived table are not part of it); no plaintext marker in the emitted statement/parameters. Non-trivial = a searched value is present AND some row is excluded")
	hx.Checks(500, 6000)
	rapid.Check(t, func(rt *rapid.T) {
		c := genCase(rt, genOpts{})
		vs := CheckRewritePG(c)
		rc, _ := resolve(c)
		R.Seen("TestRewritePG", c, nontrivial(rc), classesOf(rc, "pg")...)
		R.Report(rt, "TestRewritePG", c, vs)
	})
}
