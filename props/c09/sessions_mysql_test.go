package c09

import (
	"bytes"
	"errors"
	"fmt"
	"sort"
	"strconv"
	"strings"
	"sync"
	"testing"

	"pgregory.net/rapid"

	"github.com/cossacklabs/acra/sqlparser"

	"verif/internal/fix"
	"verif/internal/hx"
	"verif/internal/mysess"
	"verif/internal/pgprog"
	"verif/internal/pgsess"
)

// ---------------------------------------------------------------------------------------------
// the MySQL session layer: rows are written through acra's real MySQL proxy (internal/mysess) into the typed
// fake database, the search goes through the same proxy over the text or the binary protocol. The fake
// database's own engine knows single-table statements only; SELECTs (joins, NOT, sub-queries) are answered
// through its hooks by the literal evaluator of the rewrite layer over the rows the database stores.

func myColType(c pgprog.ColSpec) mysess.ColType {
	switch c.DBType() {
	case pgsess.Int4:
		return mysess.Int
	case pgsess.Int8:
		return mysess.BigInt
	case pgsess.Text:
		return mysess.Varchar
	}
	return mysess.Blob
}

func myDefs(ts []pgprog.TableSpec) []mysess.TableDef {
	var out []mysess.TableDef
	for _, t := range ts {
		d := mysess.TableDef{Name: t.Name}
		for _, c := range t.Cols {
			d.Cols = append(d.Cols, mysess.ColumnSpec{Name: c.Name, Type: myColType(c)})
		}
		out = append(out, d)
	}
	return out
}

func myParam(v pgprog.Val, lt pgsess.ColType, alt bool) mysess.Param {
	var typ byte
	switch lt {
	case pgsess.Int4:
		typ = mysess.TypeLong
	case pgsess.Int8:
		typ = mysess.TypeLongLong
	case pgsess.Text:
		typ = mysess.TypeVarString
	default:
		typ = mysess.TypeBlob
		if alt {
			typ = mysess.TypeVarString
		}
	}
	if v.Null {
		return mysess.Param{Type: typ, Null: true}
	}
	if isInt(lt) {
		n, _ := strconv.ParseInt(string(v.B), 10, 64)
		if alt {
			// some client libraries send every number as a 64-bit integer
			typ = mysess.TypeLongLong
		}
		return mysess.Param{Type: typ, B: mysess.IntBytes(typ, n)}
	}
	return mysess.Param{Type: typ, B: append([]byte{}, v.B...)}
}

func myIsIntType(t byte) bool {
	switch t {
	case mysess.TypeTiny, mysess.TypeShort, mysess.TypeYear, mysess.TypeInt24, mysess.TypeLong, mysess.TypeLongLong:
		return true
	}
	return false
}

// myDecode: the client's view of a received column (integers as decimal text).
func myDecode(v mysess.Value, typ byte, binaryProto bool) (pgprog.Val, error) {
	if v.Null {
		return pgprog.Val{Null: true}, nil
	}
	if myIsIntType(typ) && binaryProto {
		n, err := mysess.IntFromBytes(v.B)
		return pgprog.Val{B: []byte(strconv.FormatInt(n, 10))}, err
	}
	return pgprog.Val{B: append([]byte{}, v.B...)}, nil
}

func toPgRows(rows [][]mysess.Value) [][]pgsess.Value {
	out := make([][]pgsess.Value, len(rows))
	for i, r := range rows {
		for _, v := range r {
			out[i] = append(out[i], pgsess.Value{Null: v.Null, B: v.B})
		}
	}
	return out
}

// myEngine answers the SELECTs the fake database receives.
type myEngine struct {
	c     Case
	db    *mysess.FakeServer
	tdefs map[string]mysess.TableDef
	mu    sync.Mutex
	errs  []string
}

func (e *myEngine) fail(f string, a ...any) {
	e.mu.Lock()
	e.errs = append(e.errs, fmt.Sprintf(f, a...))
	e.mu.Unlock()
}

func isSelect(sql string) bool {
	return len(sql) >= 6 && strings.EqualFold(strings.TrimSpace(sql)[:6], "select")
}

// fields of the select list (columns of t and u by qualifier / name).
func (e *myEngine) fields(sel *sqlparser.Select) ([]mysess.Field, []func(m myMatch) mysess.Value, error) {
	talias, ualias := "t", "u"
	var scan func(te sqlparser.TableExpr)
	scan = func(te sqlparser.TableExpr) {
		switch n := te.(type) {
		case *sqlparser.AliasedTableExpr:
			if _, ok := n.Expr.(*sqlparser.Subquery); ok && !n.As.IsEmpty() {
				talias = strings.ToLower(n.As.String()) // a derived table over t
			}
			if tn, ok := n.Expr.(sqlparser.TableName); ok && !n.As.IsEmpty() {
				if strings.EqualFold(tn.Name.String(), "t") {
					talias = strings.ToLower(n.As.String())
				} else {
					ualias = strings.ToLower(n.As.String())
				}
			}
		case *sqlparser.JoinTableExpr:
			scan(n.LeftExpr)
			scan(n.RightExpr)
		}
	}
	for _, te := range sel.From {
		scan(te)
	}
	var fields []mysess.Field
	var get []func(m myMatch) mysess.Value
	for _, se := range sel.SelectExprs {
		ae, ok := se.(*sqlparser.AliasedExpr)
		if !ok {
			return nil, nil, fmt.Errorf("select expression %T", se)
		}
		col, ok := ae.Expr.(*sqlparser.ColName)
		if !ok {
			return nil, nil, fmt.Errorf("select expression %s", sqlparser.String(ae.Expr))
		}
		name := strings.ToLower(col.Name.String())
		qual := strings.ToLower(col.Qualifier.Name.String())
		tab := "t"
		if qual == ualias || (qual == "" && name == "tag") {
			tab = "u"
		} else if qual != "" && qual != talias {
			return nil, nil, fmt.Errorf("unknown table %s in the select list", qual)
		}
		def := e.tdefs[tab]
		idx := -1
		for i, cd := range def.Cols {
			if cd.Name == name {
				idx = i
			}
		}
		if idx < 0 {
			return nil, nil, fmt.Errorf("unknown column %s in the select list", sqlparser.String(col))
		}
		f := mysess.Field{Name: def.Cols[idx].Name, OrgName: def.Cols[idx].Name, Table: def.Name, Type: def.Cols[idx].Type}
		i, isU := idx, tab == "u"
		fields = append(fields, f)
		get = append(get, func(m myMatch) mysess.Value {
			row := m.t
			if isU {
				row = m.u
			}
			if i >= len(row) {
				return mysess.Value{Null: true}
			}
			return mysess.Value{Null: row[i].Null, B: row[i].B}
		})
	}
	return fields, get, nil
}

func (e *myEngine) prepare(sql string) (int, []mysess.Field, bool) {
	if !isSelect(sql) {
		return 0, nil, false
	}
	stmt, err := sqlparser.New(sqlparser.ModeStrict).Parse(sql)
	sel, ok := stmt.(*sqlparser.Select)
	if err != nil || !ok {
		e.fail("prepare: %.200s: %v", sql, err)
		return 0, nil, false
	}
	n := 0
	_ = sqlparser.Walk(func(node sqlparser.SQLNode) (bool, error) {
		if v, ok := node.(*sqlparser.SQLVal); ok && v.Type == sqlparser.ValArg {
			n++
		}
		return true, nil
	}, stmt)
	fields, _, err := e.fields(sel)
	if err != nil {
		e.fail("prepare: %.200s: %v", sql, err)
		return 0, nil, false
	}
	return n, fields, true
}

func (e *myEngine) exec(sql string) (*mysess.Result, bool) {
	if !isSelect(sql) {
		return nil, false
	}
	var params [][]byte
	if recv := e.db.Received(); len(recv) > 0 && recv[len(recv)-1].Kind == "X" {
		for _, p := range recv[len(recv)-1].Params {
			switch {
			case p.Null || p.Type == mysess.TypeNull:
				params = append(params, nil)
			case myIsIntType(p.Type):
				n, _ := mysess.IntFromBytes(p.B)
				params = append(params, []byte(strconv.FormatInt(n, 10)))
			default:
				params = append(params, append([]byte{}, p.B...))
			}
		}
	}
	ms, sel, err := runMySQLMatches(e.c, sql, params, toPgRows(e.db.Store.Rows("t")), toPgRows(e.db.Store.Rows("u")))
	if err != nil {
		e.fail("%.300s: %v", sql, err)
		return &mysess.Result{}, true
	}
	fields, get, err := e.fields(sel)
	if err != nil {
		e.fail("%.300s: %v", sql, err)
		return &mysess.Result{}, true
	}
	res := &mysess.Result{Fields: fields}
	for _, m := range ms {
		var row []mysess.Value
		for _, g := range get {
			row = append(row, g(m))
		}
		res.Rows = append(res.Rows, row)
	}
	return res, true
}

// CheckSessionMySQL runs the case through acra's real MySQL proxy.
func CheckSessionMySQL(c Case) (vs hx.Vs, classes []string) {
	w := fix.TheWorld()
	c, rerr := resolve(c)
	if rerr != nil {
		vs.Add("harness:resolve", "%v", rerr)
		return
	}
	c.session = true
	tabs := tables(c)
	yaml := pgprog.SchemaYAML(tabs)
	defs := myDefs(tabs)
	s, err := mysess.Start(mysess.Config{SchemaYAML: yaml, KeyStore: w.KS, ClientID: w.Alice, Tables: defs})
	if err != nil {
		vs.Add("harness:start", "%v\n%s", err, yaml)
		return
	}
	defer s.Close()
	eng := &myEngine{c: c, db: s.DB, tdefs: map[string]mysess.TableDef{}}
	for _, d := range defs {
		eng.tdefs[d.Name] = d
	}
	s.DB.PrepareHook = eng.prepare
	s.DB.Hook = eng.exec
	sig := func(kind string) string { return condSig(kind, c, "mysql") }
	inconclusive := func(err error, what string) bool {
		if errors.Is(err, mysess.ErrTimeout) {
			R.Note("inconclusive: deadline in %s", what)
			vs = nil
			return true
		}
		return false
	}
	broken := func(err error, what, sql string) bool {
		if inconclusive(err, what) {
			return true
		}
		if err != nil {
			if p := s.Panics(); len(p) > 0 {
				vs.Add("handler-panic:"+what+":mysql", "%.200s: %.600s", sql, p[0])
			} else if cls := openStatementClass(c, "mysql"); cls != "" && strings.HasPrefix(what, "select") {
				vs.Add(cls, "%.200s: %v %v", sql, err, s.ProxyErrors())
			} else {
				vs.Add("session-broken:"+what+":mysql", "%.200s: %v %v", sql, err, s.ProxyErrors())
			}
			return true
		}
		return false
	}
	lt := c.Col.Logical()
	// ---- write: one statement for u, table t as the case says (text or binary protocol)
	insert := func(table string, colNames []string, types []pgsess.ColType, rows [][]pgprog.Val, in Ins, what string) bool {
		var b strings.Builder
		b.WriteString("INSERT INTO " + table)
		if in.ColList {
			b.WriteString(" (" + strings.Join(colNames, ", ") + ")")
		}
		b.WriteString(" VALUES ")
		var params []mysess.Param
		for ri, row := range rows {
			if ri > 0 {
				b.WriteString(", ")
			}
			b.WriteString("(")
			for ci, v := range row {
				if ci > 0 {
					b.WriteString(", ")
				}
				if in.Ext {
					b.WriteString("?")
					params = append(params, myParam(v, types[ci], in.ParamFmt == 1))
				} else {
					b.WriteString(myLiteral(v, types[ci], in.Spelling))
				}
			}
			b.WriteString(")")
		}
		sql := b.String()
		debugf("INSERT prepared=%v %.300s", in.Ext, sql)
		var rep *mysess.Reply
		if in.Ext {
			classes = append(classes, "insert:binary-protocol")
			st, err := s.Prepare(sql)
			if broken(err, what+"-prepare", sql) {
				return false
			}
			if st.Err != nil {
				vs.Add("insert-failed:"+table+":mysql", "prepare %.200s: %d %s", sql, st.Err.Code, st.Err.Message)
				return false
			}
			rep, err = s.Execute(st, params)
			if broken(err, what, sql) {
				return false
			}
		} else {
			classes = append(classes, "insert:text-protocol")
			var err error
			rep, err = s.Query(sql)
			if broken(err, what, sql) {
				return false
			}
		}
		if e := rep.Error(); e != "" {
			vs.Add("insert-failed:"+table+":mysql", "%.200s: %s", sql, e)
			return false
		}
		return true
	}
	if len(c.U) > 0 {
		names, types := []string{"id", "ref", "tag"}, []pgsess.ColType{pgsess.Int4, pgsess.Int4, pgsess.Text}
		if c.UCol != nil {
			names, types = append(names, "s"), append(types, lt)
		}
		var rows [][]pgprog.Val
		for i, u := range c.U {
			row := []pgprog.Val{{B: []byte(strconv.Itoa(i + 1))}, {B: []byte(strconv.Itoa(u.Ref))}, {B: []byte(u.Tag)}}
			if c.UCol != nil {
				v := pgprog.Val{Null: true}
				if u.S != nil {
					v = *u.S
				}
				row = append(row, v)
			}
			rows = append(rows, row)
		}
		uin := Ins{ColList: true}
		if len(c.Ins) > 0 {
			uin.Ext, uin.Spelling = c.Ins[len(c.Ins)-1].Ext, c.Ins[len(c.Ins)-1].Spelling
		}
		if !insert("u", names, types, rows, uin, "insert-u") {
			return
		}
	}
	ins := c.Ins
	if len(ins) == 0 {
		ins = []Ins{{N: len(c.Rows)}}
	}
	pos := 0
	for ii, in := range ins {
		if pos >= len(c.Rows) {
			break
		}
		n := in.N
		if n < 1 || pos+n > len(c.Rows) || ii == len(ins)-1 {
			n = len(c.Rows) - pos
		}
		var rows [][]pgprog.Val
		for i := pos; i < pos+n; i++ {
			r := c.Rows[i]
			rows = append(rows, []pgprog.Val{{B: []byte(strconv.Itoa(i + 1))}, r.S, {B: []byte(r.P)}, {B: []byte(strconv.Itoa(r.N))}})
		}
		pos += n
		if !insert("t", []string{"id", "s", "p", "n"}, []pgsess.ColType{pgsess.Int4, lt, pgsess.Text, pgsess.Int4}, rows, in, "insert") {
			return
		}
	}
	// ---- what was stored: index || envelope, the index is the reference index of the plaintext for the column's owner
	stored := s.DB.Store.Rows("t")
	if len(stored) != len(c.Rows) {
		vs.Add("stored-row-count:mysql", "table t stores %d rows, %d were inserted", len(stored), len(c.Rows))
		return
	}
	owner := ownerOf(c, w)
	checkStored := func(what string, i int, plain pgprog.Val, sv mysess.Value, owner []byte) {
		switch {
		case plain.Null:
			if !sv.Null {
				vs.Add("null-changed:mysql", "%s row %d: NULL stored as %d bytes", what, i+1, len(sv.B))
			}
		case len(plain.B) == 0:
			if sv.Null || len(sv.B) != 0 {
				vs.Add("empty-changed:mysql", "%s row %d: '' stored as %d bytes", what, i+1, len(sv.B))
			}
		default:
			if sv.Null || len(sv.B) <= 33 || sv.B[0] != 0x7f {
				vs.Add("stored-without-index:mysql", "%s row %d: stored value of %d bytes does not start with an index (plaintext %.40q)", what, i+1, len(sv.B), plain.B)
				return
			}
			if !bytes.Equal(sv.B[:33], refIndex(w, owner, plain.B)) {
				vs.Add("stored-index-differs-from-reference:mysql", "%s row %d: stored index %x is not 0x7f||HMAC-SHA256(key(%s), %.40q)", what, i+1, sv.B[:33], owner, plain.B)
			}
		}
	}
	for i, r := range c.Rows {
		checkStored("t", i, r.S, stored[i][1], owner)
	}
	if c.uSearch() {
		ustored := s.DB.Store.Rows("u")
		if len(ustored) != len(c.U) {
			vs.Add("stored-row-count:mysql", "table u stores %d rows, %d were inserted", len(ustored), len(c.U))
			return
		}
		for i, u := range c.U {
			if u.S != nil && len(ustored[i]) > 3 {
				checkStored("u", i, *u.S, ustored[i][3], uOwnerOf(c))
			}
		}
	}
	if len(vs) > 0 {
		return
	}
	// ---- search
	r := renderMySQL(c)
	before := len(s.DB.Received())
	var rep *mysess.Reply
	binaryProto := len(r.Params) > 0 || c.Q.Ext
	if binaryProto {
		classes = append(classes, "select:binary-protocol")
		st, err := s.Prepare(r.SQL)
		if broken(err, "select-prepare", r.SQL) {
			return
		}
		if st.Err != nil {
			vs.Add(sig("select-failed"), "prepare %.300s: %d %s", r.SQL, st.Err.Code, st.Err.Message)
			return
		}
		var params []mysess.Param
		for i, v := range r.Params {
			params = append(params, myParam(v, r.PTypes[i], c.Q.ResultFmt == 1))
		}
		rep, err = s.Execute(st, params)
		if broken(err, "select", r.SQL) {
			return
		}
	} else {
		classes = append(classes, "select:text-protocol")
		rep, err = s.Query(r.SQL)
		if broken(err, "select", r.SQL) {
			return
		}
	}
	recv := s.DB.Received()
	emitted := ""
	var sentParams []mysess.Param
	for _, rc := range recv[before:] {
		if rc.Kind == "Q" || rc.Kind == "P" {
			emitted = rc.SQL
		}
		if rc.Kind == "X" {
			sentParams = rc.Params
		}
	}
	debugf("SELECT %.300s\n   DB got %.400s\n   errs=%q rows=%d", r.SQL, emitted, rep.Error(), len(rep.First().Rows))
	if cls := openStatementClass(c, "mysql"); cls != "" {
		vs.Add(cls, "statement of an open class (not judged further)\n  sent:    %.300s\n  emitted: %.400s", r.SQL, emitted)
		return vs, classes
	}
	// the search terms (and the stored plaintexts) never reach the database in clear
	// (searched per command: in the raw stream a packet header next to a value can complete a marker)
	inClear := func(m []byte) bool {
		for _, rc := range recv {
			if containsMarker(rc.Raw, m) {
				return true
			}
		}
		return false
	}
	for _, m := range secretMarkers(c) {
		if inClear(m) {
			vs.Add(sig("search-term-in-clear"), "bytes received by the database hold the plaintext marker %s\n  sent:    %.300s\n  emitted: %.400s", m, r.SQL, emitted)
			break
		}
	}
	if v := clearInts(c, []byte(emitted)); v != nil {
		vs.Add(sig("search-term-in-clear"), "the statement the database received holds the searched integer %s\n  sent:    %.300s\n  emitted: %.400s", v, r.SQL, emitted)
	}
	for i, p := range sentParams {
		if i < len(r.Params) && r.Search[i] && isInt(r.PTypes[i]) && !p.Null && !r.Params[i].Null {
			have := p.B
			if myIsIntType(p.Type) {
				n, _ := mysess.IntFromBytes(p.B)
				have = []byte(strconv.FormatInt(n, 10))
			}
			if bytes.Equal(have, r.Params[i].B) {
				vs.Add(sig("search-term-in-clear"), "parameter %d reached the database holding the searched integer %s", i+1, r.Params[i].B)
			}
		}
	}
	eng.mu.Lock()
	engErrs := append([]string(nil), eng.errs...)
	eng.mu.Unlock()
	if len(engErrs) > 0 {
		vs.Add(sig("emitted-statement-rejected"), "%s\n  sent: %.300s", engErrs[0], r.SQL)
		return
	}
	if e := rep.Error(); e != "" {
		if string(owner) != string(w.Alice) && c.Col.OnFail == "error" {
			return vs, classes // reading another client's column under the error policy fails by design
		}
		vs.Add(sig("select-failed"), "%.300s answered %s\n  emitted: %.400s", r.SQL, e, emitted)
		return
	}
	set := rep.First()
	want, dontCare, _ := expect(c)
	var got []int
	typeOf := func(i int) byte {
		if i < len(set.Fields) {
			return set.Fields[i].Type
		}
		return mysess.TypeVarString
	}
	for _, row := range set.Rows {
		if len(row) < 2 {
			vs.Add(sig("column-count"), "row with %d columns", len(row))
			return
		}
		idv, derr := myDecode(row[0], typeOf(0), set.Binary)
		id, aerr := strconv.Atoi(string(idv.B))
		if derr != nil || aerr != nil || id < 1 || id > len(c.Rows) {
			vs.Add(sig("undecodable-id"), "id column %q (type %#x, binary %v)", row[0].B, typeOf(0), set.Binary)
			return
		}
		if dontCare[id] {
			continue
		}
		got = append(got, id)
		if string(owner) != string(w.Alice) {
			continue // the column belongs to another client: what alice gets back is C02's / C19's business
		}
		sv, derr := myDecode(row[1], typeOf(1), set.Binary)
		if derr != nil {
			vs.Add("undecodable-value:mysql", "row %d: column s (type %#x, binary %v): %v", id, typeOf(1), set.Binary, derr)
		} else if !sameVal(sv, c.Rows[id-1].S) {
			vs.Add("owner-read-differs:mysql", "row %d: owner received %.60q, plaintext is %.60q (type %#x, binary %v)", id, sv.B, c.Rows[id-1].S.B, typeOf(1), set.Binary)
		}
	}
	sort.Ints(got)
	if !sameIDs(got, want) {
		vs.Add(sig("result-set"), "rows selected %v, rows whose plaintext satisfies the condition %v\n  sent:    %.300s\n  emitted: %.400s", got, want, r.SQL, emitted)
	}
	if p := s.Panics(); len(p) > 0 {
		vs.Add("handler-panic:session:mysql", "%.600s", p[0])
	}
	return vs, classes
}

func TestSearchSessionsMySQL(t *testing.T) {
	R.Rule("TestSearchSessionsMySQL", "whole MySQL sessions through acra's real proxy (internal/mysess): the case of TestRewriteMySQL (table t(id, s searchable, p, n) joined with u(id, ref, tag[, s plain / searchable of the same or another key owner]); 1-12 plaintexts incl. values shaped like stored searchable values) is written with INSERT statements over the text protocol (literal spellings '..', \"..\", X'..', 0x..) or the binary protocol (COM_STMT_PREPARE / EXECUTE with typed parameters), then one SELECT id, s[, tag] FROM t [AS q] [JOIN u [AS v] ON .. [AND cond]] WHERE cond (or id IN (sub-query); t possibly read through a derived table (SELECT .. FROM t ..) AS d (as right operand of a join: open known finding derived-table-as-right-join-operand:mysql); comparisons also written col <=> value) is sent as COM_QUERY or prepared and executed with the search terms as parameters. The fake database stores what it receives; SELECTs are evaluated literally over its rows (three-valued logic, substr / convert). Oracles: every stored value of a searchable column starts with the reference index of its plaintext under the column's key owner; multiset of returned ids = model; rows returned to the owner carry the plaintext; no plaintext marker of a stored or searched value of a searchable column in the bytes the database received; no handler panic. Non-trivial = a searched value is present AND some row is excluded. I/O deadlines = inconclusive")
	hx.Checks(70, 2000)
	rapid.Check(t, func(rt *rapid.T) {
		c := genCase(rt, genOpts{mysql: true, session: true})
		vs, extra := CheckSessionMySQL(c)
		rc, _ := resolve(c)
		R.Seen("TestSearchSessionsMySQL", c, nontrivial(rc), uniq(append(classesOf(rc, "mysql-session"), extra...))...)
		R.Report(rt, "TestSearchSessionsMySQL", c, vs)
	})
}
