package c09

import (
	"bytes"
	gohmac "crypto/hmac"
	"crypto/sha256"
	"fmt"
	"testing"

	"pgregory.net/rapid"

	"github.com/cossacklabs/acra/crypto"
	encryptor "github.com/cossacklabs/acra/encryptor/base"
	"github.com/cossacklabs/acra/encryptor/base/config"
	"github.com/cossacklabs/acra/hmac"

	"verif/internal/fix"
	"verif/internal/gen"
	"verif/internal/hx"
)

// ---------------------------------------------------------------------------------------------
// write entry points: plaintext -> stored value (hash || envelope) for a client

func setting(kind string) config.ColumnEncryptionSetting {
	env := config.CryptoEnvelopeTypeAcraStruct
	if kind == fix.KindBlock {
		env = config.CryptoEnvelopeTypeAcraBlock
	}
	t := true
	s := &config.BasicColumnEncryptionSetting{Name: "s", CryptoEnvelope: &env, Searchable: true, ReEncryptToAcraBlock: &t}
	if err := s.Init(false); err != nil {
		panic(fmt.Sprintf("setting %s: %v", kind, err))
	}
	return s
}

func writeChain(w *fix.World) encryptor.DataEncryptor {
	se, err := hmac.NewSearchableEncryptor(w.KS, w.Reg, w.Reg)
	if err != nil {
		panic(err)
	}
	return encryptor.NewChainDataEncryptor(crypto.NewEncryptHandler(w.Reg), se, crypto.NewReEncryptHandler(w.KS))
}

type writer struct {
	Name string
	Kind string // envelope it produces ("" = whatever the column says)
	// HashOnly: produces only the 33-byte index (query entry point)
	HashOnly bool
	F        func(w *fix.World, id, x []byte, kind string) ([]byte, error)
}

var writers = []writer{
	{Name: "SearchableEncryptor", F: func(w *fix.World, id, x []byte, kind string) ([]byte, error) {
		se, _ := hmac.NewSearchableEncryptor(w.KS, w.Reg, w.Reg)
		return se.EncryptWithClientID(id, x, setting(kind))
	}},
	{Name: "writeChain", F: func(w *fix.World, id, x []byte, kind string) ([]byte, error) {
		return writeChain(w).EncryptWithClientID(id, x, setting(kind))
	}},
	{Name: "SearchableEncryptor/client-side-envelope", F: func(w *fix.World, id, x []byte, kind string) ([]byte, error) {
		// the application already wrapped the value (AcraWriter): the index must still be that of the plaintext
		env, err := w.Protect(id, kind, fix.FormContainer, x, -1)
		if err != nil {
			return nil, err
		}
		se, _ := hmac.NewSearchableEncryptor(w.KS, w.Reg, w.Reg)
		return se.EncryptWithClientID(id, env, setting(kind))
	}},
	{Name: "Translator.EncryptSearchable", Kind: fix.KindStruct, F: func(w *fix.World, id, x []byte, _ string) ([]byte, error) {
		r, err := w.Svc.EncryptSearchable(fix.Ctx(id), x, id, nil)
		if err != nil {
			return nil, err
		}
		return append(append([]byte(nil), r.Hash...), r.EncryptedData...), nil
	}},
	{Name: "Translator.EncryptSymSearchable", Kind: fix.KindBlock, F: func(w *fix.World, id, x []byte, _ string) ([]byte, error) {
		r, err := w.Svc.EncryptSymSearchable(fix.Ctx(id), x, id, nil)
		if err != nil {
			return nil, err
		}
		return append(append([]byte(nil), r.Hash...), r.EncryptedData...), nil
	}},
	{Name: "Translator.GenerateQueryHash", HashOnly: true, F: func(w *fix.World, id, x []byte, _ string) ([]byte, error) {
		return w.Svc.GenerateQueryHash(fix.Ctx(id), x, id, nil)
	}},
	{Name: "library", F: func(w *fix.World, id, x []byte, kind string) ([]byte, error) {
		return w.Protect(id, kind, fix.FormSearchWrapped, x, -1)
	}},
}

// writerNames: the entry points rows of the rewrite layers may be written through.
var writerNames = []string{"SearchableEncryptor", "writeChain", "SearchableEncryptor/client-side-envelope", "Translator", "library"}

func writerByName(name, kind string) *writer {
	if name == "Translator" {
		if kind == fix.KindBlock {
			name = "Translator.EncryptSymSearchable"
		} else {
			name = "Translator.EncryptSearchable"
		}
	}
	for i := range writers {
		if writers[i].Name == name {
			return &writers[i]
		}
	}
	return nil
}

// refIndex is the reference blind index, written from the documented format: function number 0x7f,
// then HMAC-SHA256 under the client's HMAC key.
func refIndex(w *fix.World, id, x []byte) []byte {
	m := gohmac.New(sha256.New, w.HmacKey(id))
	m.Write(x)
	return m.Sum([]byte{0x7f})
}

// ---------------------------------------------------------------------------------------------

// HCase: plaintexts (with deliberate duplicates and prefixes) indexed through every entry point for
// two clients.
type HCase struct {
	Values []gen.Hex `json:"values"`
	Kind   string    `json:"kind"`
	// Like: further plaintexts, shaped like stored searchable values of alice's (built when the case is checked)
	Like []Like `json:"like,omitempty"`
}

type indexed struct {
	who, entry string
	vi         int
	out        []byte
}

func CheckHashes(c HCase) (vs hx.Vs, nontrivial bool, classes []string) {
	w := fix.TheWorld()
	classes = append(classes, "env:"+c.Kind)
	var all []indexed
	if len(c.Like) > 0 {
		// (the values of the case are not changed: c is a copy, its slice is re-made)
		vals := append([]gen.Hex(nil), c.Values...)
		for _, lk := range c.Like {
			x, err := buildLike(w, "alice", lk)
			if err != nil {
				vs.Add("harness:resolve", "%v", err)
				return
			}
			vals = append(vals, x)
			classes = append(classes, "plain:looks-like-searchable-ciphertext", "plain:looks-like-searchable-ciphertext:"+lk.Shape)
		}
		c.Values = vals
	}
	for vi, x := range c.Values {
		if len(x) == 0 {
			classes = append(classes, "plain:empty")
		}
		if w.Reg.MatchDataSignature(x) {
			// a plaintext that reads as a protected value is indexed by what it decrypts to (C01's pass-through law)
			classes = append(classes, "plain:is-envelope")
			continue
		}
		for _, who := range [][]byte{w.Alice, w.Bobby} {
			for _, wr := range writers {
				wr := wr
				var out []byte
				var err error
				if hx.Guard(&vs, wr.Name, func() { out, err = wr.F(w, who, append([]byte(nil), x...), c.Kind) }) {
					continue
				}
				if err != nil {
					if len(x) == 0 {
						continue // the crypto library refuses empty messages; the proxies store '' as ''
					}
					vs.Add("write-error:"+wr.Name, "%s failed for a %d-byte plaintext: %v", wr.Name, len(x), err)
					continue
				}
				if len(out) < 33 || (wr.HashOnly && len(out) != 33) {
					vs.Add("index-length:"+wr.Name, "%s returned %d bytes for a %d-byte plaintext", wr.Name, len(out), len(x))
					continue
				}
				if out[0] != 0x7f {
					vs.Add("index-function-byte:"+wr.Name, "%s: stored value starts with %#x, not the hash function number 0x7f", wr.Name, out[0])
				}
				if !bytes.Equal(out[:33], refIndex(w, who, x)) {
					vs.Add("index-differs-from-reference:"+wr.Name, "%s: first 33 bytes %x are not 0x7f||HMAC-SHA256(key(%s), plaintext)", wr.Name, out[:33], who)
				}
				all = append(all, indexed{string(who), wr.Name, vi, out})
				classes = append(classes, "entry:"+wr.Name)
			}
		}
	}
	// pairwise: determinism and separation, without reference to any formula
	for i := range all {
		for j := i + 1; j < len(all); j++ {
			a, b := all[i], all[j]
			same := bytes.Equal(a.out[:33], b.out[:33])
			samePlain := bytes.Equal(c.Values[a.vi], c.Values[b.vi])
			switch {
			case a.who == b.who && samePlain && !same:
				vs.Add("same-plaintext-different-index:"+a.entry+"/"+b.entry, "client %s, plaintext %.40q: %s gives %x, %s gives %x", a.who, c.Values[a.vi], a.entry, a.out[:33], b.entry, b.out[:33])
			case a.who == b.who && !samePlain && same:
				vs.Add("different-plaintexts-same-index:"+a.entry+"/"+b.entry, "client %s: plaintexts %.40q and %.40q share the index %x", a.who, c.Values[a.vi], c.Values[b.vi], a.out[:33])
			case a.who != b.who && same:
				vs.Add("index-shared-across-clients:"+a.entry+"/"+b.entry, "clients %s and %s share the index %x (plaintexts %.40q / %.40q)", a.who, b.who, a.out[:33], c.Values[a.vi], c.Values[b.vi])
			}
			if a.who == b.who && samePlain && a.vi != b.vi {
				nontrivial = true
				classes = append(classes, "duplicate-plaintext")
			}
			if a.who == b.who && !samePlain && (bytes.HasPrefix(c.Values[a.vi], c.Values[b.vi]) || bytes.HasPrefix(c.Values[b.vi], c.Values[a.vi])) {
				classes = append(classes, "prefix-pair")
			}
		}
	}
	// the owner reads the plaintext back through the searchable column chain; a value whose index was
	// swapped with another row's is not handed out as plaintext by any hash-verifying reveal entry point
	var full []indexed
	for _, e := range all {
		if len(e.out) > 33 && e.who == "alice" {
			full = append(full, e)
		}
	}
	for i, e := range full {
		out, err := fix.NewSearchChain(w.KS, nil).OnColumn(w.Alice, append([]byte(nil), e.out...))
		if err != nil || !bytes.Equal(out, c.Values[e.vi]) {
			vs.Add("owner-read:"+e.entry, "search column chain returned %d bytes (err %v) for a value written by %s, want the %d-byte plaintext", len(out), err, e.entry, len(c.Values[e.vi]))
		}
		// partner with a different plaintext
		for k := 1; k < len(full); k++ {
			p := full[(i+k)%len(full)]
			if bytes.Equal(c.Values[p.vi], c.Values[e.vi]) {
				continue
			}
			planted := append(append([]byte(nil), p.out[:33]...), e.out[33:]...)
			kind := c.Kind
			if wr := writerByName(e.entry, c.Kind); wr != nil && wr.Kind != "" {
				kind = wr.Kind
			}
			for _, r := range w.Reveals(w.Alice, kind) {
				if !r.VerifiesHash || !r.Accepts(kind, fix.FormSearchWrapped) {
					continue
				}
				var got []byte
				var rerr error
				if hx.Guard(&vs, r.Name, func() { got, rerr = r.F(append([]byte(nil), planted...)) }) {
					continue
				}
				classes = append(classes, "swapped-index:"+r.Name)
				if rerr == nil && bytes.Equal(got, c.Values[e.vi]) {
					vs.Add("mismatched-index-revealed:"+r.Name, "%s handed out the %d-byte plaintext of a value whose index belongs to another plaintext (written by %s)", r.Name, len(got), e.entry)
				}
			}
			break
		}
	}
	return vs, nontrivial, uniq(classes)
}

func genHCase(t *rapid.T) HCase {
	c := HCase{Kind: rapid.SampledFrom(fix.Kinds).Draw(t, "kind")}
	n := rapid.IntRange(2, 4).Draw(t, "n")
	for i := 0; i < n; i++ {
		l := fmt.Sprintf("v%d", i)
		var v gen.Hex
		switch k := rapid.SampledFrom([]string{"fresh", "fresh", "dup", "prefix", "ext", "empty"}).Draw(t, l+".kind"); {
		case k == "fresh" || len(c.Values) == 0:
			v = gen.Bytes(t, l, 4096)
		case k == "dup":
			v = append(gen.Hex{}, c.Values[rapid.IntRange(0, len(c.Values)-1).Draw(t, l+".of")]...)
		case k == "prefix":
			b := c.Values[rapid.IntRange(0, len(c.Values)-1).Draw(t, l+".of")]
			if len(b) > 0 {
				v = append(gen.Hex{}, b[:rapid.IntRange(0, len(b)-1).Draw(t, l+".cut")]...)
			}
		case k == "ext":
			b := c.Values[rapid.IntRange(0, len(c.Values)-1).Draw(t, l+".of")]
			v = append(append(gen.Hex{}, b...), rapid.SliceOfN(rapid.Byte(), 1, 3).Draw(t, l+".suf")...)
		default:
			v = gen.Hex{}
		}
		if v == nil {
			v = gen.Hex{}
		}
		c.Values = append(c.Values, v)
	}
	if rapid.IntRange(0, 2).Draw(t, "like") == 0 {
		var nonEmpty []gen.Hex
		for _, v := range c.Values {
			if len(v) > 0 {
				nonEmpty = append(nonEmpty, v)
			}
		}
		if len(nonEmpty) > 0 {
			pick := func(l string) gen.Hex {
				return append(gen.Hex{}, nonEmpty[rapid.IntRange(0, len(nonEmpty)-1).Draw(t, l)]...)
			}
			lk := Like{Shape: rapid.SampledFrom([]string{"copy", "splice", "foreign", "index-then-bytes"}).Draw(t, "like.shape")}
			lk.EnvKind = rapid.SampledFrom(fix.Kinds).Draw(t, "like.envkind")
			lk.Bare = rapid.IntRange(0, 3).Draw(t, "like.bare") == 0
			lk.HashOf = pick("like.hash")
			switch lk.Shape {
			case "copy":
				lk.EnvOf = append(gen.Hex{}, lk.HashOf...)
			case "splice":
				lk.EnvOf = pick("like.env")
			case "foreign":
				lk.EnvOf, lk.EnvBy = pick("like.env"), "bobby"
			default:
				lk.Tail = rapid.SliceOfN(rapid.Byte(), 0, 40).Draw(t, "like.tail")
			}
			c.Like = append(c.Like, lk)
		}
	}
	return c
}

func TestHashes(t *testing.T) {
	R.Rule("TestHashes", "2-4 plaintexts (G-bytes classes; deliberate duplicates, prefixes/extensions of one another, empty) are indexed for alice and bobby through every entry point (SearchableEncryptor, the proxies' write chain, SearchableEncryptor fed a client-side envelope, translator EncryptSearchable / EncryptSymSearchable / GenerateQueryHash, library composition). Oracles: first byte 0x7f, first 33 bytes equal 0x7f||HMAC-SHA256(client key, plaintext) computed independently; pairwise: same client and plaintext => same index, different plaintext => different, different client => different; owner reads the plaintext through the searchable column chain; a value carrying another plaintext's index is never revealed as plaintext by a hash-verifying reveal entry point. Non-trivial = the case holds a duplicated plaintext")
	hx.Checks(80, 3000)
	rapid.Check(t, func(rt *rapid.T) {
		c := genHCase(rt)
		vs, nt, cl := CheckHashes(c)
		R.Seen("TestHashes", c, nt, cl...)
		R.Report(rt, "TestHashes", c, vs)
	})
}
