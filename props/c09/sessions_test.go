package c09

import (
	"bytes"
	"errors"
	"fmt"
	"os"
	"sort"
	"strconv"
	"testing"

	"pgregory.net/rapid"

	"github.com/cossacklabs/acra/sqlparser"
	pgdialect "github.com/cossacklabs/acra/sqlparser/dialect/postgresql"

	"verif/internal/fix"
	"verif/internal/hx"
	"verif/internal/pgprog"
	"verif/internal/pgsess"
)

func sameVal(a, b pgprog.Val) bool {
	if a.Null || b.Null {
		return a.Null == b.Null
	}
	return bytes.Equal(a.B, b.B)
}

func debugf(f string, a ...any) {
	if os.Getenv("VERIF_DEBUG") != "" {
		fmt.Printf(f+"\n", a...)
	}
}

// CheckSession runs the case through acra's real PostgreSQL proxy and the typed fake database.
func CheckSession(c Case) (vs hx.Vs, classes []string) {
	sqlparser.SetDefaultDialect(pgdialect.NewPostgreSQLDialect())
	w := fix.TheWorld()
	c, rerr := resolve(c)
	if rerr != nil {
		vs.Add("harness:resolve", "%v", rerr)
		return
	}
	c.session = true
	tabs := tables(c)
	yaml := pgprog.SchemaYAML(tabs)
	s, err := pgsess.Start(pgsess.Config{SchemaYAML: yaml, KeyStore: w.KS, ClientID: w.Alice, Tables: pgprog.Defs(tabs)})
	if err != nil {
		vs.Add("harness:start", "%v\n%s", err, yaml)
		return
	}
	defer s.Close()
	sig := func(kind string) string { return condSig(kind, c, "pg") }
	inconclusive := func(err error, what string) bool {
		if errors.Is(err, pgsess.ErrTimeout) {
			R.Note("inconclusive: deadline in %s", what)
			vs = nil
			return true
		}
		return false
	}
	// ---- write: table u in one statement, table t as the case says
	if len(c.U) > 0 {
		st := pgprog.Step{Op: "insert", Table: 1}
		for i, u := range c.U {
			row := []pgprog.Val{{B: []byte(strconv.Itoa(i + 1))}, {B: []byte(strconv.Itoa(u.Ref))}, {B: []byte(u.Tag)}}
			if c.UCol != nil {
				v := pgprog.Val{Null: true}
				if u.S != nil {
					v = *u.S
				}
				row = append(row, v)
			}
			st.Rows = append(st.Rows, row)
		}
		rep, err := s.Simple(pgprog.Render(tabs, st).SQL)
		if inconclusive(err, "insert into u") {
			return
		}
		if err != nil || len(rep.Errors) > 0 {
			vs.Add("insert-failed:u", "%v %v", err, rep)
			return
		}
	}
	pos := 0
	ins := c.Ins
	if len(ins) == 0 {
		ins = []Ins{{N: len(c.Rows)}}
	}
	for ii, in := range ins {
		if pos >= len(c.Rows) {
			break
		}
		n := in.N
		if n < 1 || pos+n > len(c.Rows) || ii == len(ins)-1 {
			n = len(c.Rows) - pos
		}
		st := pgprog.Step{Op: "insert", Table: 0, Ext: in.Ext, ParamFmt: in.ParamFmt, Declare: in.Declare, Spelling: in.Spelling, Cast: in.Cast, MixedFmt: in.MixedFmt, Describe: in.Describe}
		if in.ColList {
			st.Cols = []int{0, 1, 2, 3}
		}
		for i := pos; i < pos+n; i++ {
			r := c.Rows[i]
			st.Rows = append(st.Rows, []pgprog.Val{{B: []byte(strconv.Itoa(i + 1))}, r.S, {B: []byte(r.P)}, {B: []byte(strconv.Itoa(r.N))}})
		}
		pos += n
		rd := pgprog.Render(tabs, st)
		var rep *pgsess.Reply
		if st.Ext {
			rep, err = s.Extended(pgprog.ExtOf(st, rd, fmt.Sprintf("ins%d", ii)))
			classes = append(classes, fmt.Sprintf("insert:ext/pfmt%d", st.ParamFmt))
		} else {
			rep, err = s.Simple(rd.SQL)
			classes = append(classes, "insert:simple")
		}
		debugf("INSERT ext=%v %s", st.Ext, rd.SQL)
		if inconclusive(err, "insert") {
			return
		}
		if err != nil {
			vs.Add("session-broken:insert", "%.200s: %v", rd.SQL, err)
			return
		}
		if len(rep.Errors) > 0 {
			vs.Add("insert-failed:t", "%.200s: %q", rd.SQL, rep.Errors)
			return
		}
	}
	// ---- what was stored: index || envelope, index = reference index of the plaintext (write side)
	stored := s.DB.Store.Rows("t")
	if len(stored) != len(c.Rows) {
		vs.Add("stored-row-count", "table t stores %d rows, %d were inserted", len(stored), len(c.Rows))
		return
	}
	owner := ownerOf(c, w)
	for i, r := range c.Rows {
		sv := stored[i][1]
		switch {
		case r.S.Null:
			if !sv.Null {
				vs.Add("null-changed", "row %d: NULL stored as %d bytes", i+1, len(sv.B))
			}
		case len(r.S.B) == 0:
			if sv.Null || len(sv.B) != 0 {
				vs.Add("empty-changed", "row %d: '' stored as %v", i+1, sv)
			}
		default:
			if sv.Null || len(sv.B) <= 33 || sv.B[0] != 0x7f {
				vs.Add("stored-without-index", "row %d: stored value of %d bytes does not start with an index (plaintext %.40q)", i+1, len(sv.B), r.S.B)
				return
			}
			if !bytes.Equal(sv.B[:33], refIndex(w, owner, r.S.B)) {
				vs.Add("stored-index-differs-from-reference", "row %d: stored index %x is not 0x7f||HMAC-SHA256(key(%s), %.40q)", i+1, sv.B[:33], owner, r.S.B)
			}
		}
	}
	if c.uSearch() {
		ustored := s.DB.Store.Rows("u")
		if len(ustored) != len(c.U) {
			vs.Add("stored-row-count", "table u stores %d rows, %d were inserted", len(ustored), len(c.U))
			return
		}
		for i, u := range c.U {
			if u.S == nil || u.S.Null || len(u.S.B) == 0 || len(ustored[i]) < 4 {
				continue
			}
			sv := ustored[i][3]
			if sv.Null || len(sv.B) <= 33 || !bytes.Equal(sv.B[:33], refIndex(w, uOwnerOf(c), u.S.B)) {
				vs.Add("stored-index-differs-from-reference:joined-table", "u row %d: the stored value (%d bytes) does not start with 0x7f||HMAC-SHA256(key(%s), %.40q)", i+1, len(sv.B), uOwnerOf(c), u.S.B)
			}
		}
	}
	if len(vs) > 0 {
		return
	}
	// ---- search
	r := renderPG(c)
	var rep *pgsess.Reply
	resFmt := int16(0)
	if len(r.Params) > 0 || c.Q.Ext {
		e := pgsess.Ext{SQL: r.SQL, StmtName: "q", ResultFormats: []int16{c.Q.ResultFmt}, DescribeStmt: c.Q.Describe == "S", DescribePort: c.Q.Describe != "S"}
		for i, v := range r.Params {
			e.Params = append(e.Params, pgprog.ParamBytes(v, r.PTypes[i], r.PFmts[i]))
		}
		uniform := true
		for _, f := range r.PFmts {
			uniform = uniform && f == r.PFmts[0]
		}
		switch {
		case len(r.PFmts) == 0:
		case uniform:
			e.ParamFormats = []int16{r.PFmts[0]}
		default:
			e.ParamFormats = r.PFmts
			classes = append(classes, "select:mixed-param-formats")
		}
		resFmt = c.Q.ResultFmt
		rep, err = s.Extended(e)
		classes = append(classes, fmt.Sprintf("select:ext/rfmt%d", resFmt))
	} else {
		rep, err = s.Simple(r.SQL)
		classes = append(classes, "select:simple")
	}
	if os.Getenv("VERIF_DEBUG") != "" {
		fmt.Printf("SELECT %s\n", r.SQL)
		recv := s.DB.Received()
		for _, rc := range recv[max(0, len(recv)-2):] {
			fmt.Printf("   DB got %s %.400s\n", rc.Kind, rc.SQL)
			for pi, pp := range rc.Params {
				fmt.Printf("      $%d null=%v fmt=%d %.80q\n", pi+1, pp.Null, pp.Format, pp.Data)
			}
		}
		if rep != nil {
			fmt.Printf("   reply msgs=%v errs=%v rows=%d\n", rep.Msgs, rep.Errors, len(rep.Rows))
		}
	}
	if inconclusive(err, "select") {
		return
	}
	if err != nil {
		sg := "session-broken:select"
		if cls := openStatementClass(c, "pg"); cls != "" {
			sg = cls
		}
		vs.Add(sg, "%.200s: %v", r.SQL, err)
		return
	}
	emitted := ""
	if recv := s.DB.Received(); len(recv) > 0 {
		emitted = recv[len(recv)-1].SQL
	}
	if cls := openStatementClass(c, "pg"); cls != "" {
		vs.Add(cls, "statement of an open class (not judged further)\n  sent:    %.300s\n  emitted: %.400s", r.SQL, emitted)
		return vs, classes
	}
	// the search terms (and the stored plaintexts) never reach the database in clear
	raw := s.DB.Raw()
	for _, m := range secretMarkers(c) {
		if containsMarker(raw, m) {
			vs.Add(sig("search-term-in-clear"), "bytes received by the database hold the plaintext marker %s\n  sent:    %.300s\n  emitted: %.400s", m, r.SQL, emitted)
			break
		}
	}
	if recv := s.DB.Received(); len(recv) > 0 {
		last := recv[len(recv)-1]
		if v := clearInts(c, []byte(last.SQL)); v != nil {
			vs.Add(sig("search-term-in-clear"), "the statement the database received holds the searched integer %s\n  sent:    %.300s\n  emitted: %.400s", v, r.SQL, emitted)
		}
		for i, p := range last.Params {
			if i < len(r.Params) && r.Search[i] && isInt(r.PTypes[i]) && !p.Null && bytes.Equal(p.Data, pgprog.ParamBytes(r.Params[i], r.PTypes[i], r.PFmts[i])) {
				vs.Add(sig("search-term-in-clear"), "parameter $%d reached the database holding the searched integer %s", i+1, r.Params[i].B)
			}
		}
	}
	if len(rep.Errors) > 0 && string(owner) != string(w.Alice) && c.Col.OnFail == "error" {
		return // reading another client's column under the error policy fails by design
	}
	if len(rep.Errors) > 0 {
		vs.Add(sig("select-failed"), "%.300s answered %q\n  emitted: %.400s", r.SQL, rep.Errors, emitted)
		return
	}
	want, dontCare, _ := expect(c)
	var got []int
	oidOf := func(i int) uint32 {
		if i < len(rep.Fields) {
			return rep.Fields[i].DataTypeOID
		}
		return 25
	}
	for _, row := range rep.Rows {
		if len(row) < 2 {
			vs.Add(sig("column-count"), "row with %d columns", len(row))
			return
		}
		idv, _, derr := pgprog.Decode(row[0], oidOf(0), resFmt)
		id, aerr := strconv.Atoi(string(idv.B))
		if derr != nil || aerr != nil || id < 1 || id > len(c.Rows) {
			vs.Add(sig("undecodable-id"), "id column %q (oid %d, format %d)", row[0], oidOf(0), resFmt)
			return
		}
		if dontCare[id] {
			continue
		}
		got = append(got, id)
		// rows returned to the owner carry the plaintext
		if string(owner) != string(w.Alice) {
			continue // the column belongs to another client: what alice gets back is C02's / C19's business
		}
		sv, _, derr := pgprog.Decode(row[1], oidOf(1), resFmt)
		if derr != nil {
			vs.Add("undecodable-value", "row %d: column s (oid %d, format %d): %v", id, oidOf(1), resFmt, derr)
		} else if !sameVal(sv, c.Rows[id-1].S) {
			vs.Add("owner-read-differs", "row %d: owner received %.60q, plaintext is %.60q (oid %d, format %d)", id, sv.B, c.Rows[id-1].S.B, oidOf(1), resFmt)
		}
	}
	sort.Ints(got)
	if !sameIDs(got, want) {
		vs.Add(sig("result-set"), "rows selected %v, rows whose plaintext satisfies the condition %v\n  sent:    %.300s\n  emitted: %.400s", got, want, r.SQL, emitted)
	}
	if len(vs) > 0 {
		return
	}
	// ---- a stored value whose index was swapped with another row's is not delivered as plaintext
	if len(c.Swap) == 2 && c.Swap[0] != c.Swap[1] && c.Swap[0] >= 0 && c.Swap[1] >= 0 && c.Swap[0] < len(c.Rows) && c.Swap[1] < len(c.Rows) {
		a, b := c.Swap[0], c.Swap[1]
		ra, rb := c.Rows[a].S, c.Rows[b].S
		if !ra.Null && !rb.Null && len(ra.B) > 0 && len(rb.B) > 0 && !bytes.Equal(ra.B, rb.B) {
			rows := s.DB.Store.Rows("t")
			va, vb := rows[a][1].B, rows[b][1].B
			na := append(append([]byte{}, vb[:33]...), va[33:]...)
			nb := append(append([]byte{}, va[:33]...), vb[33:]...)
			rows[a][1], rows[b][1] = pgsess.Value{B: na}, pgsess.Value{B: nb}
			s.DB.Store.SetRows("t", rows)
			classes = append(classes, "swapped-index")
			rep, err := s.Simple("SELECT id, s FROM t")
			if inconclusive(err, "read after swap") {
				return
			}
			if err != nil {
				vs.Add("session-broken:read-after-swap", "%v", err)
				return
			}
			if len(rep.Errors) > 0 {
				classes = append(classes, "swapped-index:error")
			}
			seen := 0
			for _, row := range rep.Rows {
				if len(row) < 2 {
					continue
				}
				idv, _, _ := pgprog.Decode(row[0], 23, 0)
				id, _ := strconv.Atoi(string(idv.B))
				if id != a+1 && id != b+1 {
					continue
				}
				seen++
				oid := uint32(17)
				if len(rep.Fields) > 1 {
					oid = rep.Fields[1].DataTypeOID
				}
				sv, _, derr := pgprog.Decode(row[1], oid, 0)
				for _, plain := range []pgprog.Val{ra, rb} {
					if (derr == nil && sameVal(sv, plain)) || bytes.Equal(row[1], plain.B) {
						vs.Add("mismatched-index-delivered-as-plaintext", "row %d carries the index of another row's plaintext, yet the owner received the plaintext %.40q", id, plain.B)
					}
				}
				for _, m := range secretMarkers(c) {
					if containsMarker(row[1], m) {
						vs.Add("mismatched-index-delivered-as-plaintext", "row %d carries the index of another row's plaintext, yet what the owner received holds the plaintext marker %s", id, m)
						break
					}
				}
				if c.Col.DataType == "" || c.Col.DataType == "bytes" {
					planted := na
					if id == b+1 {
						planted = nb
					}
					if derr == nil && !bytes.Equal(sv.B, planted) && c.Col.OnFail != "default_value" {
						vs.Add("mismatched-index-value-altered", "row %d: delivered %d bytes that are neither an error nor the stored bytes (%d bytes)", id, len(sv.B), len(planted))
					}
				}
			}
			if seen > 0 {
				classes = append(classes, "swapped-index:delivered-unrevealed")
			}
		}
	}
	return vs, classes
}

func TestSearchSessions(t *testing.T) {
	R.Rule("TestSearchSessions", "whole PostgreSQL sessions through acra's real proxy (internal/pgsess): table t(id, s searchable, p, n) + u(id, ref, tag); the 1-12 generated plaintexts (as TestRewritePG) are INSERTed in 1..n statements over the simple or extended protocol (text/binary parameters, declared or inferred types, literal spellings, casts), then one SELECT id, s FROM t [AS q] [JOIN u ..] WHERE cond (condition forms as TestRewritePG incl. IS [NOT] DISTINCT FROM and t read through a derived table (as right operand of a join: open known finding derived-table-as-right-join-operand:pg); placeholders in text and binary format, mixed with placeholders on plain columns) is executed; the typed fake database evaluates the rewritten condition literally. Oracles: every stored value starts with the reference index of its plaintext; multiset of returned ids = model; every returned row carries the plaintext (decoded by an independent codec as the described type); no plaintext marker of any stored or searched value in the bytes the database received; after swapping the indexes of two rows with different plaintexts in the store, the owner receives neither plaintext for them. Non-trivial = a searched value is present AND some row is excluded. I/O deadlines = inconclusive")
	hx.Checks(70, 2000)
	rapid.Check(t, func(rt *rapid.T) {
		c := genCase(rt, genOpts{session: true})
		vs, extra := CheckSession(c)
		rc, _ := resolve(c)
		R.Seen("TestSearchSessions", c, nontrivial(rc), uniq(append(classesOf(rc, "pg-session"), extra...))...)
		R.Report(rt, "TestSearchSessions", c, vs)
	})
}
