// Package c09: equality search over protected columns finds exactly the matching rows.
//
// Three layers share one Case type (a searchable column configuration, a multiset of stored plaintexts,
// a SELECT with a generated condition) and one plain model of SQL's three-valued logic:
//
//	TestHashes          (a1) blind index determinism / separation across every write and query entry point
//	TestRewritePG       (a2) PostgreSQL HashQuery.OnQuery/OnBind, emitted statement evaluated literally
//	TestRewriteMySQL    (a2) MySQL HashQuery.OnQuery/OnBind, emitted statement evaluated literally
//	TestSearchSessions  (b)  whole PostgreSQL sessions through the real proxy and the typed fake database
package c09

import (
	"bytes"
	"encoding/base64"
	"encoding/hex"
	"encoding/json"
	"fmt"
	"os"
	"sort"
	"strconv"
	"strings"
	"testing"
	"unicode/utf8"

	"pgregory.net/rapid"

	"verif/internal/fix"
	"verif/internal/gen"
	"verif/internal/hx"
	"verif/internal/pgprog"
	"verif/internal/pgsess"
)

var R = hx.New("C09")

func TestMain(m *testing.M) { os.Exit(R.Main(m)) }

// ---------------------------------------------------------------------------------------------
// the case

// Row is one row of table t(id, s, p, n): id is the position + 1, s the searchable column.
type Row struct {
	S pgprog.Val `json:"s"`
	P string     `json:"p"`
	N int        `json:"n"`
	W string     `json:"w,omitempty"` // component layers: write entry point that produced the stored value
	// Like, when set, describes the plaintext instead of S: a value that is shaped like a stored searchable value
	// (0x7f + 32 bytes, then exactly one serialized envelope). It is built when the case is checked (see resolve)
	Like *Like `json:"like,omitempty"`
}

// Like is a plaintext that looks like what acra itself stores in a searchable column: <index><envelope>.
// The index is 0x7f||HMAC-SHA256(key(HashBy), HashOf) or 0x7f||RawHash; the envelope holds EnvOf for client EnvBy.
type Like struct {
	HashOf  gen.Hex `json:"hash_of,omitempty"`
	HashBy  string  `json:"hash_by,omitempty"` // "" = the column's key owner
	RawHash gen.Hex `json:"raw_hash,omitempty"`
	EnvOf   gen.Hex `json:"env_of,omitempty"`
	EnvBy   string  `json:"env_by,omitempty"` // "" = the column's key owner
	EnvKind string  `json:"env_kind"`         // acrastruct | acrablock
	Bare    bool    `json:"bare,omitempty"`   // bare envelope instead of the serialized container
	Shape   string  `json:"shape,omitempty"`  // generator's intention: copy | splice | foreign | index-then-bytes
	// Tail (when EnvOf is empty): arbitrary bytes follow the index-like prefix instead of an envelope
	Tail gen.Hex `json:"tail,omitempty"`
}

// URow is one row of the joined table u(id, ref, tag[, s]).
type URow struct {
	Ref int    `json:"ref"`
	Tag string `json:"tag"`
	// S is the value of u.s when the joined table has a column named like the searchable one (Case.UCol)
	S *pgprog.Val `json:"s,omitempty"`
	W string      `json:"w,omitempty"`
}

// Cond is a WHERE condition.
type Cond struct {
	// "s" comparison on the searchable column | "plain" | "and" | "or" | "not" | "ss": t.s <op> u.s (both searchable
	// columns of one key owner; Flip: u.s <op> t.s)
	K string `json:"k"`
	// K == "s"
	Neg  bool `json:"neg,omitempty"`  // <> instead of =
	Bang bool `json:"bang,omitempty"` // spelled !=
	Flip bool `json:"flip,omitempty"` // value <op> column
	// NS: the null-safe spelling of the comparison. PostgreSQL: IS NOT DISTINCT FROM (Neg: IS DISTINCT FROM);
	// MySQL: <=> (Neg: NOT (.. <=> ..)). Two NULLs are equal, a NULL and a value are not; never unknown
	NS    bool       `json:"ns,omitempty"`
	Form  string     `json:"form,omitempty"`  // lit | cast | ptext | pbin | pcast
	Spell int        `json:"spell,omitempty"` // literal spelling
	Val   pgprog.Val `json:"val,omitempty"`
	Probe string     `json:"probe,omitempty"` // generator's intention: present | absent | prefix | empty
	// Tab "u": the comparison is on the same-named column s of the joined table u (Case.UCol), "" on t.s
	Tab string `json:"tab,omitempty"`
	// Ref > 0: the searched value is the plaintext of row Ref of table t (used for rows described by Like)
	Ref int `json:"ref,omitempty"`
	// K == "plain": <Col> <Op> <Arg> on a plain column (id, p, n, tag); PForm "" literal | ptext | pbin
	Col   string `json:"col,omitempty"`
	Op    string `json:"op,omitempty"`
	Arg   string `json:"arg,omitempty"`
	PForm string `json:"pform,omitempty"`
	Kids  []Cond `json:"kids,omitempty"`
}

// Query is the SELECT.
type Query struct {
	Alias   bool `json:"alias,omitempty"`   // FROM t AS q, columns written q.col
	Qualify bool `json:"qualify,omitempty"` // columns written t.col
	Join    bool `json:"join,omitempty"`    // FROM t JOIN u ON t.id = u.ref
	// Sub: the statement is wrapped as SELECT id, s FROM t WHERE id IN (SELECT id FROM t ... WHERE cond)
	Sub   bool `json:"sub,omitempty"`
	Where Cond `json:"where"`
	// Derived: table t is read through a derived table, FROM (SELECT id, s, p, n FROM t ...) AS d; the outer
	// statement names t's columns d.<column>
	Derived *Derived `json:"derived,omitempty"`
	// joins: JOIN u AS v; ON u.ref = t.id instead of t.id = u.ref; a further condition inside the ON clause
	UAlias bool  `json:"u_alias,omitempty"`
	Comma  bool  `json:"comma,omitempty"` // FROM t, u WHERE t.id = u.ref AND (...) instead of JOIN .. ON
	OnFlip bool  `json:"on_flip,omitempty"`
	On     *Cond `json:"on,omitempty"`
	// sessions
	Ext       bool   `json:"ext,omitempty"`
	ResultFmt int16  `json:"result_fmt,omitempty"`
	Describe  string `json:"describe,omitempty"`
}

// Derived describes the derived table that stands for table t in the FROM clause.
type Derived struct {
	// Cols: how the inner SELECT names the columns: "bare" id, s, p, n FROM t | "qualified" t.id, .. FROM t |
	// "inner-alias" q.id, .. FROM t AS q
	Cols string `json:"cols"`
	// Filter: a condition on a plain column (literal operand) inside the derived table; rows that fail it are not
	// part of the derived table
	Filter *Cond `json:"filter,omitempty"`
	// Right (joins): the derived table is the right operand, FROM u JOIN (SELECT ...) AS d ON .. / FROM u, (SELECT ...) AS d
	Right bool `json:"right,omitempty"`
}

// Ins tells how a run of rows is inserted in the session layer.
type Ins struct {
	N        int    `json:"n"` // rows in this statement
	Ext      bool   `json:"ext,omitempty"`
	ParamFmt int16  `json:"param_fmt,omitempty"`
	Declare  bool   `json:"declare,omitempty"`
	Spelling int    `json:"spelling,omitempty"`
	Cast     bool   `json:"cast,omitempty"`
	ColList  bool   `json:"col_list,omitempty"`
	MixedFmt bool   `json:"mixed_fmt,omitempty"`
	Describe string `json:"describe,omitempty"`
}

// Case is shared by the rewrite and session layers.
type Case struct {
	Col   pgprog.ColSpec `json:"col"`
	UConf bool           `json:"u_configured,omitempty"` // table u appears in the encryptor configuration
	// UCol: the joined table u has a column named s as well: a plain column, or a searchable one of the same or of
	// another key owner (nil: u has no such column)
	UCol *pgprog.ColSpec `json:"u_col,omitempty"`
	Rows []Row           `json:"rows"`
	U    []URow          `json:"u,omitempty"`
	Q    Query           `json:"q"`
	Ins  []Ins           `json:"ins,omitempty"`
	Swap []int           `json:"swap,omitempty"` // session layer: two row positions whose hashes get swapped

	resolved bool
	session  bool // set by the session layers (some signatures are attributed there only)
}

func tables(c Case) []pgprog.TableSpec {
	ucols := []pgprog.ColSpec{{Name: "id", Kind: pgprog.KPlainInt}, {Name: "ref", Kind: pgprog.KPlainInt}, {Name: "tag", Kind: pgprog.KPlainText}}
	if c.UCol != nil {
		uc := *c.UCol
		uc.Name = "s"
		if uc.Kind == pgprog.KSearch && !c.UConf {
			// a table that is not configured holds plain values whatever the case says about its column
			uc = pgprog.ColSpec{Name: "s", Kind: plainKindOf(c.Col.Logical())}
		}
		ucols = append(ucols, uc)
	}
	return []pgprog.TableSpec{
		{Name: "t", Configured: true, Cols: []pgprog.ColSpec{{Name: "id", Kind: pgprog.KPlainInt}, c.Col, {Name: "p", Kind: pgprog.KPlainText}, {Name: "n", Kind: pgprog.KPlainInt}}},
		{Name: "u", Configured: c.UConf, Cols: ucols},
	}
}

// uSearch: u.s exists and is a searchable column (its table is in the configuration then).
func (c Case) uSearch() bool { return c.UCol != nil && c.UCol.Kind == pgprog.KSearch && c.UConf }

// uPlain: u.s exists and holds its values as they are.
func (c Case) uPlain() bool { return c.UCol != nil && !c.uSearch() }

// ---------------------------------------------------------------------------------------------
// generators

var plainWords = []string{"x", "red", "blue", "green"}

func isInt(lt pgsess.ColType) bool { return lt == pgsess.Int4 || lt == pgsess.Int8 }

func marker(t *rapid.T, label string) string {
	var b [8]byte
	n := rapid.Uint64().Draw(t, label+".m")
	for i := range b {
		b[i] = byte(n >> (8 * i))
	}
	return "MRK" + hex.EncodeToString(b[:])
}

// integer plaintexts have at least 9 digits, so that finding one as a token of a forwarded statement means a leak
var intPool32 = []int64{123456789, 1234567890, -123456789, 2147483647, -2147483647, 100000000, 424242424, 1000000007}
var intPool64 = []int64{123456789, 1234567890, 1234567890123, 12345678901234, -1234567890123, 9223372036854775806, 4294967301, 42949673011}

var textTails = []string{"", "", " plain tail", "'quote", `back\slash`, "ünï", "\n", `"dq"`, "%%%", "$1", ";--", "''", `\\`, "0x41", `\x41`}

// genBase draws a fresh base value of the column's logical type.
func genBase(t *rapid.T, lt pgsess.ColType, label string) pgprog.Val {
	switch lt {
	case pgsess.Int4:
		return pgprog.Val{B: []byte(strconv.FormatInt(rapid.SampledFrom(intPool32).Draw(t, label+".i"), 10))}
	case pgsess.Int8:
		return pgprog.Val{B: []byte(strconv.FormatInt(rapid.SampledFrom(intPool64).Draw(t, label+".i"), 10))}
	case pgsess.Text:
		m := marker(t, label)
		if rapid.IntRange(0, 11).Draw(t, label+".0x") == 11 {
			return pgprog.Val{B: []byte("0x" + m[3:])} // a string that reads like a hexadecimal number
		}
		return pgprog.Val{B: []byte(m + rapid.SampledFrom(textTails).Draw(t, label+".tail"))}
	}
	head := rapid.SampledFrom([][]byte{nil, nil, nil, {0}, {0xc3}, []byte(`\`), []byte("0x")}).Draw(t, label+".head")
	tail := rapid.OneOf(
		rapid.SampledFrom([][]byte{nil, nil, {0}, {0xff, 0xfe}, []byte(`\x41`), []byte(`'`), []byte(`\\`), []byte(`%%%`), []byte(`""""""""`), {0x7f}, []byte(" tail")}),
		rapid.SliceOfN(rapid.Byte(), 1, 16),
	).Draw(t, label+".tail")
	return pgprog.Val{B: append(append(append([]byte{}, head...), []byte(marker(t, label))...), tail...)}
}

// prefixOf: a proper prefix of v (keeps a recognisable marker for text/bytes when it can).
func prefixOf(t *rapid.T, lt pgsess.ColType, v pgprog.Val, label string) pgprog.Val {
	if isInt(lt) {
		// dropping the last digit always gives a value of the type that is a proper prefix
		s := string(v.B)
		if len(strings.TrimPrefix(s, "-")) > 1 {
			return pgprog.Val{B: []byte(s[:len(s)-1])}
		}
		return pgprog.Val{B: []byte(s + "0")}
	}
	i := bytes.Index(v.B, []byte("MRK"))
	min := 1
	if i >= 0 && len(v.B) > i+13 {
		min = i + 12
	}
	if min >= len(v.B) {
		min = len(v.B) - 1
	}
	if min < 1 {
		return pgprog.Val{B: append(append([]byte{}, v.B...), 'x')}
	}
	cut := rapid.IntRange(min, len(v.B)-1).Draw(t, label+".cut")
	if lt == pgsess.Text {
		// a text value is valid UTF-8: never cut inside a multi-byte character
		for cut > 1 && !utf8.Valid(v.B[:cut]) {
			cut--
		}
	}
	return pgprog.Val{B: append([]byte{}, v.B[:cut]...)}
}

func extOf(t *rapid.T, lt pgsess.ColType, v pgprog.Val, label string) pgprog.Val {
	if isInt(lt) {
		s := string(v.B)
		bits := 32
		if lt == pgsess.Int8 {
			bits = 64
		}
		ext := s + rapid.SampledFrom([]string{"0", "7"}).Draw(t, label+".d")
		if _, err := strconv.ParseInt(ext, 10, bits); err == nil {
			return pgprog.Val{B: []byte(ext)}
		}
		return pgprog.Val{B: []byte(s[:len(s)-1])} // out of range: take the prefix instead
	}
	suf := rapid.SampledFrom([]string{"x", " ", "'", "0"}).Draw(t, label+".suf")
	return pgprog.Val{B: append(append([]byte{}, v.B...), suf...)}
}

func longOf(t *rapid.T, v pgprog.Val, label string) pgprog.Val {
	n := rapid.SampledFrom([]int{300, 2000, 9000}).Draw(t, label+".len")
	fill := bytes.Repeat([]byte("long-filler "), n/12+1)[:n]
	return pgprog.Val{B: append(append([]byte{}, v.B...), fill...)}
}

type genOpts struct {
	mysql   bool
	session bool
}

func genCol(t *rapid.T) pgprog.ColSpec {
	c := pgprog.GenCol(t, "s", []string{pgprog.KSearch}, "alice")
	// sometimes the column belongs to another client than the one that is connected (client_id: bobby)
	if rapid.IntRange(0, 9).Draw(t, "s.foreign") == 9 {
		c.ClientID = "bobby"
		if c.OnFail == "error" {
			c.OnFail = "" // alice cannot decrypt bobby's values: the error policy would fail every read (C19's subject)
		}
	}
	return c
}

func plainKindOf(lt pgsess.ColType) string {
	switch lt {
	case pgsess.Bytea:
		return pgprog.KPlainBytea
	case pgsess.Int4:
		return pgprog.KPlainInt
	}
	return pgprog.KPlainText
}

// genLike describes a plaintext shaped like a stored searchable value: copy = the stored form of another plaintext
// of the column (as read raw from the database), splice = the index of one plaintext in front of the envelope of
// another, foreign = an index-like prefix in front of an envelope made for another client.
func genLike(t *rapid.T, c Case, lt pgsess.ColType, pool []pgprog.Val, label string) *Like {
	pick := func(l string) gen.Hex {
		if rapid.IntRange(0, 3).Draw(t, l+".fresh") == 0 {
			return gen.Hex(genBase(t, lt, l).B)
		}
		return append(gen.Hex{}, pool[rapid.IntRange(0, len(pool)-1).Draw(t, l+".pick")].B...)
	}
	lk := &Like{Shape: rapid.SampledFrom([]string{"copy", "splice", "splice", "foreign", "index-then-bytes"}).Draw(t, label+".shape")}
	if lk.Shape == "index-then-bytes" {
		// the index of a plaintext of the column (or 32 arbitrary bytes) followed by something that is no envelope
		if rapid.Bool().Draw(t, label+".rawhash") {
			lk.RawHash = rapid.SliceOfN(rapid.Byte(), 32, 32).Draw(t, label+".raw")
		} else {
			lk.HashOf = pick(label + ".hash")
		}
		lk.Tail = rapid.OneOf(rapid.Just([]byte(nil)), rapid.SliceOfN(rapid.Byte(), 1, 40), rapid.Just([]byte(`%%%""""""""`))).Draw(t, label+".tail")
		return lk
	}
	lk.EnvKind = rapid.SampledFrom(fix.Kinds).Draw(t, label+".envkind")
	lk.Bare = rapid.IntRange(0, 3).Draw(t, label+".bare") == 0
	lk.EnvOf = pick(label + ".env")
	switch lk.Shape {
	case "copy":
		lk.HashOf = append(gen.Hex{}, lk.EnvOf...)
	case "splice":
		lk.HashOf = pick(label + ".hash")
	case "foreign":
		lk.EnvBy = "bobby"
		if c.Col.ClientID == "bobby" {
			lk.EnvBy = "alice"
		}
		if rapid.Bool().Draw(t, label+".rawhash") {
			lk.RawHash = rapid.SliceOfN(rapid.Byte(), 32, 32).Draw(t, label+".raw")
		} else {
			lk.HashOf = pick(label + ".hash")
			lk.HashBy = rapid.SampledFrom([]string{"", lk.EnvBy}).Draw(t, label+".hashby")
		}
	}
	return lk
}

// buildLike makes the value a Like describes, for a column whose key owner is owner.
func buildLike(w *fix.World, owner string, lk Like) ([]byte, error) {
	by := func(s string) []byte {
		if s == "" {
			return []byte(owner)
		}
		return []byte(s)
	}
	var x []byte
	if len(lk.RawHash) > 0 {
		x = append([]byte{0x7f}, lk.RawHash...)
		for len(x) < 33 {
			x = append(x, 0)
		}
		x = x[:33]
	} else {
		x = refIndex(w, by(lk.HashBy), lk.HashOf)
	}
	if len(lk.EnvOf) == 0 {
		return append(x, lk.Tail...), nil
	}
	kind, form := fix.KindBlock, fix.FormContainer
	if lk.EnvKind == fix.KindStruct {
		kind = fix.KindStruct
	}
	if lk.Bare {
		form = fix.FormRaw
	}
	env, err := w.Protect(by(lk.EnvBy), kind, form, append([]byte(nil), lk.EnvOf...), -1)
	if err != nil {
		return nil, fmt.Errorf("envelope for %s: %v", by(lk.EnvBy), err)
	}
	return append(x, env...), nil
}

// resolve builds the values that are only described in the case (Row.Like) with the fixture's keys and copies them
// into the comparisons that refer to them (Cond.Ref). The envelope inside such a value is fresh on every call;
// every oracle is invariant under that.
func resolve(c Case) (Case, error) {
	if c.resolved {
		return c, nil
	}
	w := fix.TheWorld()
	owner := string(ownerOf(c, w))
	rows := append([]Row(nil), c.Rows...)
	for i, r := range rows {
		if r.Like == nil {
			continue
		}
		x, err := buildLike(w, owner, *r.Like)
		if err != nil {
			return c, fmt.Errorf("row %d: %v", i+1, err)
		}
		rows[i].S = pgprog.Val{B: x}
	}
	c.Rows = rows
	var fill func(k Cond) Cond
	fill = func(k Cond) Cond {
		if k.K == "s" && k.Ref > 0 && k.Ref <= len(rows) {
			k.Val = rows[k.Ref-1].S
		}
		if len(k.Kids) > 0 {
			kids := make([]Cond, len(k.Kids))
			for i, kid := range k.Kids {
				kids[i] = fill(kid)
			}
			k.Kids = kids
		}
		return k
	}
	c.Q.Where = fill(c.Q.Where)
	if c.Q.On != nil {
		on := fill(*c.Q.On)
		c.Q.On = &on
	}
	c.resolved = true
	return c, nil
}

func genCase(t *rapid.T, o genOpts) Case {
	var c Case
	c.Col = genCol(t)
	if o.mysql {
		// the MySQL loader takes the same column options; type by database identifier is PostgreSQL-only here
		c.Col.ByTypeID = false
	}
	lt := c.Col.Logical()
	hasNot := false
	// ---- the condition shape first (it decides whether NULL rows may appear, see model.go)
	shape := rapid.SampledFrom([]string{"single", "single", "single", "and-plain", "plain-and", "or-plain", "not", "and-two", "or-two", "nested", "not-and"}).Draw(t, "shape")
	if shape == "not" || shape == "not-and" {
		hasNot = true
	}
	c.Q.Alias = rapid.IntRange(0, 3).Draw(t, "alias") == 3
	if !c.Q.Alias {
		c.Q.Qualify = rapid.IntRange(0, 3).Draw(t, "qualify") == 3
	}
	c.Q.Join = rapid.IntRange(0, 2).Draw(t, "join") == 2
	// only with the same FROM in both SELECTs: the rewriter resolves columns of a sub-query against the outer
	// statement's tables, a sub-query over other tables / aliases is passed on unchanged (not claimed as supported)
	c.Q.Sub = !c.Q.Join && !c.Q.Alias && rapid.IntRange(0, 4).Draw(t, "sub") == 4
	c.UConf = rapid.Bool().Draw(t, "uconf")
	derived := !c.Q.Alias && !c.Q.Sub && rapid.IntRange(0, 4).Draw(t, "derived") == 4
	if c.Q.Join {
		c.Q.UAlias = rapid.IntRange(0, 3).Draw(t, "ualias") == 3
		c.Q.OnFlip = rapid.IntRange(0, 3).Draw(t, "onflip") == 3
		c.Q.Comma = rapid.IntRange(0, 4).Draw(t, "comma") == 4
		// the joined table has a column named s too
		if rapid.IntRange(0, 3).Draw(t, "ucol") != 0 {
			variants := []string{"same-client", "other-client", "other-client"}
			if lt != pgsess.Int8 {
				variants = append(variants, "plain", "plain-unconfigured-table")
			}
			switch v := rapid.SampledFrom(variants).Draw(t, "ucol.variant"); v {
			case "plain", "plain-unconfigured-table":
				c.UCol = &pgprog.ColSpec{Name: "s", Kind: plainKindOf(lt)}
				c.UConf = v == "plain"
			default:
				uc := pgprog.ColSpec{Name: "s", Kind: pgprog.KSearch, DataType: c.Col.DataType, ClientID: c.Col.ClientID}
				uc.Envelope = rapid.SampledFrom([]string{"", "acrastruct", "acrablock"}).Draw(t, "ucol.env")
				tOwner := c.Col.ClientID
				if tOwner == "" {
					tOwner = "alice"
				}
				if v == "other-client" {
					if tOwner == "alice" {
						uc.ClientID = "bobby"
					} else {
						uc.ClientID = rapid.SampledFrom([]string{"", "alice"}).Draw(t, "ucol.client")
					}
				} else if tOwner == "alice" {
					uc.ClientID = rapid.SampledFrom([]string{"", "alice"}).Draw(t, "ucol.client")
				}
				c.UCol = &uc
				c.UConf = true
			}
		}
	}
	// stored plaintexts that look like stored searchable values (bytes-typed / untyped columns can hold them)
	likeCase := lt == pgsess.Bytea && rapid.IntRange(0, 2).Draw(t, "like") == 2
	// ---- stored plaintexts
	npool := rapid.IntRange(1, 3).Draw(t, "npool")
	var pool []pgprog.Val
	for i := 0; i < npool; i++ {
		pool = append(pool, genBase(t, lt, fmt.Sprintf("pool%d", i)))
	}
	nrows := rapid.IntRange(1, 12).Draw(t, "nrows")
	for i := 0; i < nrows; i++ {
		l := fmt.Sprintf("r%d", i)
		kinds := []string{"pool", "pool", "pool", "pool", "pool", "prefix", "ext", "null"}
		if !isInt(lt) {
			kinds = append(kinds, "empty", "long")
		}
		if likeCase {
			kinds = append(kinds, "like", "like", "like")
		}
		var v pgprog.Val
		var like *Like
		switch rapid.SampledFrom(kinds).Draw(t, l+".kind") {
		case "like":
			like = genLike(t, c, lt, pool, l)
		case "pool":
			v = pool[rapid.IntRange(0, len(pool)-1).Draw(t, l+".pick")]
		case "prefix":
			v = prefixOf(t, lt, pool[rapid.IntRange(0, len(pool)-1).Draw(t, l+".pick")], l)
		case "ext":
			v = extOf(t, lt, pool[rapid.IntRange(0, len(pool)-1).Draw(t, l+".pick")], l)
		case "long":
			v = longOf(t, pool[rapid.IntRange(0, len(pool)-1).Draw(t, l+".pick")], l)
		case "empty":
			v = pgprog.Val{B: []byte{}}
		case "null":
			if hasNot {
				v = pool[0]
			} else {
				v = pgprog.Val{Null: true}
			}
		}
		r := Row{S: v, Like: like, P: rapid.SampledFrom(plainWords).Draw(t, l+".p"), N: rapid.IntRange(0, 3).Draw(t, l+".n")}
		if !o.session {
			r.W = rapid.SampledFrom(writerNames).Draw(t, l+".w")
		}
		c.Rows = append(c.Rows, r)
	}
	if c.Q.Join {
		nu := rapid.IntRange(1, 5).Draw(t, "nu")
		for i := 0; i < nu; i++ {
			l := fmt.Sprintf("u%d", i)
			u := URow{Ref: rapid.IntRange(1, nrows+1).Draw(t, l+".ref"), Tag: rapid.SampledFrom(plainWords).Draw(t, l+".tag")}
			if c.UCol != nil {
				// values of u.s: mostly those of t.s, so that equal plaintexts meet under different settings
				var v pgprog.Val
				kinds := []string{"of-t", "of-t", "of-t", "pool", "prefix", "fresh", "null"}
				if !isInt(lt) {
					kinds = append(kinds, "empty")
				}
				switch rapid.SampledFrom(kinds).Draw(t, l+".kind") {
				case "of-t":
					r := c.Rows[rapid.IntRange(0, nrows-1).Draw(t, l+".row")]
					v = r.S
					if r.Like != nil || r.S.Null {
						v = pool[0]
					}
				case "pool":
					v = pool[rapid.IntRange(0, len(pool)-1).Draw(t, l+".pick")]
				case "prefix":
					v = prefixOf(t, lt, pool[rapid.IntRange(0, len(pool)-1).Draw(t, l+".pick")], l)
				case "fresh":
					v = genBase(t, lt, l)
				case "empty":
					v = pgprog.Val{B: []byte{}}
				case "null":
					if hasNot {
						v = pool[0]
					} else {
						v = pgprog.Val{Null: true}
					}
				}
				u.S = &v
				if !o.session {
					u.W = rapid.SampledFrom(writerNames).Draw(t, l+".w")
				}
			}
			c.U = append(c.U, u)
		}
	}
	if derived {
		// table t is reached only through a derived table. Together with a joined table that is not configured no
		// table named in the outer FROM list has a schema
		c.Q.Qualify = false
		d := &Derived{Cols: rapid.SampledFrom([]string{"bare", "bare", "qualified", "inner-alias"}).Draw(t, "derived.cols")}
		if rapid.IntRange(0, 2).Draw(t, "derived.filter") == 0 {
			k := Cond{K: "plain", Col: rapid.SampledFrom([]string{"id", "p", "n"}).Draw(t, "derived.filter.col"), Op: rapid.SampledFrom([]string{"=", "<>", "<>"}).Draw(t, "derived.filter.op")}
			switch k.Col {
			case "id":
				k.Arg = strconv.Itoa(rapid.IntRange(1, nrows).Draw(t, "derived.filter.arg"))
			case "n":
				k.Arg = strconv.Itoa(rapid.IntRange(0, 3).Draw(t, "derived.filter.arg"))
			default:
				k.Arg = rapid.SampledFrom(plainWords).Draw(t, "derived.filter.arg")
			}
			d.Filter = &k
		}
		if c.Q.Join {
			d.Right = rapid.IntRange(0, 2).Draw(t, "derived.right") == 0
		}
		c.Q.Derived = d
	}
	// ---- the condition
	var likeRows []int
	for i, r := range c.Rows {
		if r.Like != nil {
			likeRows = append(likeRows, i)
		}
	}
	scmpOn := func(label, tab string) Cond {
		k := Cond{K: "s", Tab: tab}
		probes := []string{"present", "present", "present", "present", "absent", "prefix", "prefix"}
		if !isInt(lt) {
			probes = append(probes, "empty")
		}
		if len(likeRows) > 0 && tab == "" {
			probes = append(probes, "like", "like", "like", "like", "like", "like", "spliced-plaintext", "spliced-plaintext", "spliced-plaintext", "spliced-plaintext")
		}
		k.Probe = rapid.SampledFrom(probes).Draw(t, label+".probe")
		var stored []pgprog.Val
		if tab == "u" {
			for _, u := range c.U {
				if u.S != nil && !u.S.Null {
					stored = append(stored, *u.S)
				}
			}
		} else {
			for _, r := range c.Rows {
				if !r.S.Null && r.Like == nil {
					stored = append(stored, r.S)
				}
			}
		}
		if len(stored) == 0 {
			stored = pool
		}
		switch k.Probe {
		case "like":
			// exactly the value that was written (built when the case is checked)
			k.Ref = likeRows[rapid.IntRange(0, len(likeRows)-1).Draw(t, label+".pick")] + 1
		case "spliced-plaintext":
			// the plaintext whose index the value starts with / that its envelope holds
			lk := c.Rows[likeRows[rapid.IntRange(0, len(likeRows)-1).Draw(t, label+".pick")]].Like
			k.Val = pgprog.Val{B: append([]byte{}, lk.EnvOf...)}
			if len(lk.HashOf) > 0 && (len(lk.EnvOf) == 0 || rapid.IntRange(0, 2).Draw(t, label+".which") != 0) {
				k.Val = pgprog.Val{B: append([]byte{}, lk.HashOf...)}
			}
			if len(k.Val.B) == 0 {
				k.Val = pool[0]
			}
		case "present":
			k.Val = stored[rapid.IntRange(0, len(stored)-1).Draw(t, label+".pick")]
		case "absent":
			k.Val = genBase(t, lt, label+".fresh")
		case "prefix":
			k.Val = prefixOf(t, lt, stored[rapid.IntRange(0, len(stored)-1).Draw(t, label+".pick")], label)
		case "empty":
			k.Val = pgprog.Val{B: []byte{}}
		}
		k.Neg = rapid.IntRange(0, 3).Draw(t, label+".neg") == 3
		if k.Neg {
			k.Bang = rapid.Bool().Draw(t, label+".bang")
		}
		k.Flip = rapid.IntRange(0, 3).Draw(t, label+".flip") == 3
		// the null-safe spelling of the comparison
		if rapid.IntRange(0, 4).Draw(t, label+".ns") == 0 {
			k.NS, k.Bang = true, false
			if o.mysql {
				// MySQL has no negated null-safe operator (NOT (a <=> b) is the shape "not" around this comparison)
				k.Neg = false
			}
		}
		forms := []string{"lit", "lit", "lit", "ptext", "pbin"}
		if !o.mysql && !isInt(lt) {
			forms = append(forms, "cast", "pcast")
		}
		if o.mysql {
			forms = []string{"lit", "lit", "param"}
		}
		k.Form = rapid.SampledFrom(forms).Draw(t, label+".form")
		k.Spell = rapid.IntRange(0, 3).Draw(t, label+".spell")
		if k.NS && tab == "" && rapid.IntRange(0, 5).Draw(t, label+".null") == 0 {
			// <column> IS [NOT] DISTINCT FROM NULL / <column> <=> NULL: finds the rows that hold no value
			k.Probe, k.Val, k.Ref, k.Form = "null", pgprog.Val{Null: true}, 0, "lit"
		}
		return k
	}
	// which table's column s the comparisons are on: with a same-named column in u the second comparison of a
	// clause is mostly on the other table than the first
	firstTab := ""
	if c.UCol != nil && rapid.Bool().Draw(t, "tab0") {
		firstTab = "u"
	}
	scmp := func(label string) Cond {
		tab := ""
		if c.UCol != nil {
			switch {
			case label == "c0":
				tab = firstTab
			case rapid.IntRange(0, 3).Draw(t, label+".tab") != 0:
				if firstTab == "" {
					tab = "u"
				}
			default:
				tab = firstTab
			}
		}
		return scmpOn(label, tab)
	}
	plain := func(label string) Cond {
		k := Cond{K: "plain"}
		cols := []string{"id", "id", "p", "n"}
		if c.Q.Join {
			cols = append(cols, "tag")
		}
		k.Col = rapid.SampledFrom(cols).Draw(t, label+".col")
		k.Op = rapid.SampledFrom([]string{"=", "<>"}).Draw(t, label+".op")
		switch k.Col {
		case "id":
			k.Arg = strconv.Itoa(rapid.IntRange(1, nrows).Draw(t, label+".arg"))
		case "n":
			k.Arg = strconv.Itoa(rapid.IntRange(0, 3).Draw(t, label+".arg"))
		default:
			k.Arg = rapid.SampledFrom(plainWords).Draw(t, label+".arg")
		}
		if rapid.IntRange(0, 3).Draw(t, label+".pform") == 3 {
			if o.mysql {
				k.PForm = "param"
			} else {
				k.PForm = rapid.SampledFrom([]string{"ptext", "pbin"}).Draw(t, label+".pf")
			}
		}
		return k
	}
	switch shape {
	case "single":
		c.Q.Where = scmp("c0")
	case "and-plain":
		c.Q.Where = Cond{K: "and", Kids: []Cond{scmp("c0"), plain("p0")}}
	case "plain-and":
		c.Q.Where = Cond{K: "and", Kids: []Cond{plain("p0"), scmp("c0")}}
	case "or-plain":
		c.Q.Where = Cond{K: "or", Kids: []Cond{scmp("c0"), plain("p0")}}
	case "not":
		c.Q.Where = Cond{K: "not", Kids: []Cond{scmp("c0")}}
	case "and-two":
		c.Q.Where = Cond{K: "and", Kids: []Cond{scmp("c0"), scmp("c1")}}
	case "or-two":
		c.Q.Where = Cond{K: "or", Kids: []Cond{scmp("c0"), scmp("c1")}}
	case "nested":
		c.Q.Where = Cond{K: "and", Kids: []Cond{plain("p0"), {K: "or", Kids: []Cond{scmp("c0"), scmp("c1")}}}}
	case "not-and":
		c.Q.Where = Cond{K: "not", Kids: []Cond{{K: "and", Kids: []Cond{scmp("c0"), plain("p0")}}}}
	}
	if c.Q.Join && rapid.IntRange(0, 2).Draw(t, "on") == 0 {
		// a search condition inside the ON clause (an inner join: it selects like the same condition in WHERE)
		tab := ""
		if c.UCol != nil && rapid.Bool().Draw(t, "on.tab") {
			tab = "u"
		}
		k := scmpOn("on", tab)
		c.Q.On = &k
	}
	if c.uSearch() && string(uOwnerOf(c)) == string(tOwnerName(c)) && rapid.IntRange(0, 3).Draw(t, "colcol") == 0 {
		// the two searchable columns compared with one another (they share the key): in the ON clause or in WHERE
		k := Cond{K: "ss", Neg: !hasNot && rapid.IntRange(0, 3).Draw(t, "colcol.neg") == 0, Flip: rapid.Bool().Draw(t, "colcol.flip")}
		if rapid.Bool().Draw(t, "colcol.on") {
			c.Q.On = &k
		} else {
			c.Q.Where = Cond{K: "and", Kids: []Cond{k, c.Q.Where}}
		}
	}
	if o.session {
		c.Q.Ext = rapid.Bool().Draw(t, "q.ext")
		c.Q.ResultFmt = int16(rapid.IntRange(0, 1).Draw(t, "q.rfmt"))
		c.Q.Describe = rapid.SampledFrom([]string{"S", "P"}).Draw(t, "q.describe")
		left := nrows
		for i := 0; left > 0; i++ {
			l := fmt.Sprintf("ins%d", i)
			in := Ins{N: rapid.IntRange(1, 4).Draw(t, l+".n")}
			if in.N > left {
				in.N = left
			}
			left -= in.N
			in.Ext = rapid.Bool().Draw(t, l+".ext")
			in.Spelling = rapid.IntRange(0, 3).Draw(t, l+".spelling")
			in.Cast = rapid.IntRange(0, 4).Draw(t, l+".cast") == 0
			in.ColList = rapid.Bool().Draw(t, l+".collist")
			if in.Ext {
				in.ParamFmt = int16(rapid.IntRange(0, 1).Draw(t, l+".pfmt"))
				in.Declare = rapid.Bool().Draw(t, l+".declare")
				in.MixedFmt = rapid.IntRange(0, 3).Draw(t, l+".mixed") == 0
				in.Describe = rapid.SampledFrom([]string{"S", "P"}).Draw(t, l+".describe")
			}
			c.Ins = append(c.Ins, in)
		}
		// two rows with different, non-empty plaintexts (when there are any) get their indexes swapped afterwards
		var pairs [][2]int
		for a := range c.Rows {
			for b := a + 1; b < len(c.Rows); b++ {
				ra, rb := c.Rows[a].S, c.Rows[b].S
				if !ra.Null && !rb.Null && len(ra.B) > 0 && len(rb.B) > 0 && !bytes.Equal(ra.B, rb.B) {
					pairs = append(pairs, [2]int{a, b})
				}
			}
		}
		if len(pairs) > 0 && rapid.IntRange(0, 3).Draw(t, "swap") != 0 {
			p := pairs[rapid.IntRange(0, len(pairs)-1).Draw(t, "swap.pair")]
			c.Swap = []int{p[0], p[1]}
		}
	}
	return c
}

// ---------------------------------------------------------------------------------------------
// the model: SQL's three-valued logic over the plaintext rows

type tri int8

const (
	no tri = iota
	yes
	unknown
)

func triNot(a tri) tri {
	switch a {
	case yes:
		return no
	case no:
		return yes
	}
	return unknown
}

type joined struct {
	row int // position in c.Rows
	u   int // position in c.U or -1
}

func evalCond(c Case, k Cond, j joined) tri {
	switch k.K {
	case "s":
		v := c.Rows[j.row].S
		if k.Tab == "u" {
			if j.u < 0 || c.U[j.u].S == nil {
				return unknown
			}
			v = *c.U[j.u].S
		}
		if k.NS {
			// null-safe: two NULLs are equal, a NULL and a value are not
			eq := v.Null && k.Val.Null
			if !v.Null && !k.Val.Null {
				eq = bytes.Equal(v.B, k.Val.B)
			}
			if eq != k.Neg {
				return yes
			}
			return no
		}
		if v.Null || k.Val.Null {
			return unknown
		}
		eq := bytes.Equal(v.B, k.Val.B)
		if eq != k.Neg {
			return yes
		}
		return no
	case "ss":
		if j.u < 0 || c.U[j.u].S == nil {
			return unknown
		}
		a, b := c.Rows[j.row].S, *c.U[j.u].S
		if a.Null || b.Null {
			return unknown
		}
		if bytes.Equal(a.B, b.B) != k.Neg {
			return yes
		}
		return no
	case "plain":
		var have string
		switch k.Col {
		case "id":
			have = strconv.Itoa(j.row + 1)
		case "p":
			have = c.Rows[j.row].P
		case "n":
			have = strconv.Itoa(c.Rows[j.row].N)
		case "tag":
			if j.u < 0 {
				return unknown
			}
			have = c.U[j.u].Tag
		}
		if (have == k.Arg) == (k.Op == "=") {
			return yes
		}
		return no
	case "not":
		return triNot(evalCond(c, k.Kids[0], j))
	case "and":
		res := yes
		for _, kid := range k.Kids {
			switch evalCond(c, kid, j) {
			case no:
				return no
			case unknown:
				res = unknown
			}
		}
		return res
	case "or":
		res := no
		for _, kid := range k.Kids {
			switch evalCond(c, kid, j) {
			case yes:
				return yes
			case unknown:
				res = unknown
			}
		}
		return res
	}
	return unknown
}

func walkCond(k Cond, f func(Cond)) {
	f(k)
	for _, kid := range k.Kids {
		walkCond(kid, f)
	}
}

// walkConds visits the conditions of WHERE and of the ON clause.
func walkConds(c Case, f func(Cond)) {
	walkCond(c.Q.Where, f)
	if c.Q.On != nil && c.Q.Join {
		walkCond(*c.Q.On, f)
	}
}

// columnValues: the non-NULL plaintexts of the column a comparison is on.
func columnValues(c Case, tab string) [][]byte {
	var out [][]byte
	if tab == "u" {
		for _, u := range c.U {
			if u.S != nil && !u.S.Null {
				out = append(out, u.S.B)
			}
		}
		return out
	}
	for _, r := range c.Rows {
		if !r.S.Null {
			out = append(out, r.S.B)
		}
	}
	return out
}

func hasNot(k Cond) bool {
	found := false
	walkCond(k, func(x Cond) { found = found || x.K == "not" })
	return found
}

// expectation: multiset of ids the statement must return, and the ids whose presence is not decided
// here (NULL rows under NOT: the fake database evaluates conditions in two-valued logic).
func expect(c Case) (ids []int, dontCare map[int]bool, excluded int) {
	dontCare = map[int]bool{}
	not := hasNot(c.Q.Where)
	var js []joined
	for i := range c.Rows {
		if !c.Q.Join {
			js = append(js, joined{i, -1})
			continue
		}
		for ui, u := range c.U {
			if u.Ref == i+1 {
				js = append(js, joined{i, ui})
			}
		}
	}
	for _, j := range js {
		if not && c.Rows[j.row].S.Null {
			dontCare[j.row+1] = true
			continue
		}
		if d := c.Q.Derived; d != nil && d.Filter != nil && evalCond(c, *d.Filter, j) != yes {
			excluded++ // the row is not part of the derived table
			continue
		}
		if evalCond(c, c.Q.Where, j) == yes && (c.Q.On == nil || !c.Q.Join || evalCond(c, *c.Q.On, j) == yes) {
			ids = append(ids, j.row+1)
		} else {
			excluded++
		}
	}
	sort.Ints(ids)
	return
}

// nontrivial: some searched value is present at least once AND at least one row is absent from the result.
func nontrivial(c Case) bool {
	present := false
	walkConds(c, func(k Cond) {
		if k.K != "s" || k.Val.Null {
			return
		}
		for _, v := range columnValues(c, k.Tab) {
			if bytes.Equal(v, k.Val.B) {
				present = true
			}
		}
	})
	_, _, excluded := expect(c)
	return present && excluded > 0
}

func classesOf(c Case, db string) []string {
	cl := []string{"db:" + db, "dtype:" + orNone(c.Col.DataType)}
	env := c.Col.Envelope
	if env == "" {
		env = "default"
	}
	cl = append(cl, "env:"+env)
	if c.Col.ClientID == "alice" {
		cl = append(cl, "column-client:explicit")
	} else if c.Col.ClientID != "" {
		cl = append(cl, "column-client:other-than-connection")
	}
	if c.Q.Alias {
		cl = append(cl, "from:alias")
	}
	if c.Q.Qualify {
		cl = append(cl, "from:qualified")
	}
	if c.Q.Join {
		cl = append(cl, "from:join")
	}
	if c.Q.Sub {
		cl = append(cl, "condition-in-sub-query")
	}
	if d := c.Q.Derived; d != nil {
		cl = append(cl, "from:derived-table", "derived:columns-"+d.Cols)
		if d.Filter != nil {
			cl = append(cl, "derived:filter-inside")
		}
		if c.Q.Join && d.Right {
			cl = append(cl, "derived:right-operand-of-join")
		}
		if !c.Q.Join || !c.UConf {
			cl = append(cl, "derived:no-configured-table-in-outer-from")
		}
	}
	if c.Q.Join {
		if c.Q.UAlias {
			cl = append(cl, "join:joined-table-alias")
		}
		if c.Q.OnFlip {
			cl = append(cl, "join:on-operands-flipped")
		}
		if c.Q.Comma {
			cl = append(cl, "join:table-list")
		}
		switch {
		case c.UCol == nil:
			cl = append(cl, "join:no-same-named-column")
		case c.uPlain() && c.UConf:
			cl = append(cl, "join:same-named-column:plain")
		case c.uPlain():
			cl = append(cl, "join:same-named-column:plain-unconfigured-table")
		case string(uOwnerOf(c)) == string(tOwnerName(c)):
			cl = append(cl, "join:same-named-column:same-client")
		default:
			cl = append(cl, "join:same-named-column:other-client")
		}
		if c.uSearch() && c.UCol.Envelope != c.Col.Envelope {
			cl = append(cl, "join:same-named-column:other-envelope")
		}
		var whereT, whereU, onT, onU bool
		walkCond(c.Q.Where, func(k Cond) {
			if k.K == "s" {
				whereT, whereU = whereT || k.Tab == "", whereU || k.Tab == "u"
			}
		})
		walkConds(c, func(k Cond) {
			if k.K == "ss" {
				cl = append(cl, "join:searchable-column-compared-with-searchable-column")
			}
		})
		if c.Q.On != nil {
			walkCond(*c.Q.On, func(k Cond) {
				if k.K == "s" {
					onT, onU = onT || k.Tab == "", onU || k.Tab == "u"
				}
			})
			cl = append(cl, "join:search-condition-in-on")
		}
		if c.UCol != nil {
			if whereT && whereU {
				cl = append(cl, "join:both-columns-in-one-clause")
				// which comes first in the text
				first := ""
				walkCond(c.Q.Where, func(k Cond) {
					if k.K == "s" && first == "" {
						first = "t"
						if k.Tab == "u" {
							first = "u"
						}
					}
				})
				cl = append(cl, "join:both-columns-in-one-clause:"+first+"-first")
			}
			if (onT && whereU) || (onU && whereT) {
				cl = append(cl, "join:both-columns-across-on-and-where")
			}
			if (whereU || onU) && !(whereT || onT) {
				cl = append(cl, "join:only-joined-table-column")
			}
		}
	}
	for _, r := range c.Rows {
		if r.Like != nil {
			cl = append(cl, "stored:looks-like-searchable-ciphertext", "stored:looks-like-searchable-ciphertext:"+r.Like.Shape)
		}
	}
	cl = append(cl, "where:"+shapeOf(c.Q.Where))
	walkConds(c, func(k Cond) {
		switch k.K {
		case "s":
			cl = append(cl, "form:"+k.Form, "probe:"+k.Probe)
			if k.Ref > 0 {
				cl = append(cl, "searched:looks-like-searchable-ciphertext")
			}
			if k.Flip {
				cl = append(cl, "order:value-left")
			} else {
				cl = append(cl, "order:column-left")
			}
			switch {
			case k.NS && k.Neg:
				cl = append(cl, "op:null-safe", "op:null-safe-not-equal")
			case k.NS:
				cl = append(cl, "op:null-safe", "op:null-safe-equal")
			case k.Neg && k.Bang:
				cl = append(cl, "op:!=")
			case k.Neg:
				cl = append(cl, "op:<>")
			default:
				cl = append(cl, "op:=")
			}
			if k.NS {
				cl = append(cl, "op:null-safe:form:"+k.Form)
				if k.Flip {
					cl = append(cl, "op:null-safe:value-left")
				}
			}
			if k.Val.Null {
				for _, r := range c.Rows {
					if r.S.Null {
						cl = append(cl, "searched:null-present")
						break
					}
				}
				return
			}
			n := 0
			for _, v := range columnValues(c, k.Tab) {
				if bytes.Equal(v, k.Val.B) {
					n++
				}
			}
			if n >= 2 {
				cl = append(cl, "searched:duplicates")
			}
			if n >= 1 && len(k.Val.B) == 0 {
				cl = append(cl, "searched:empty-present")
			}
			for _, v := range columnValues(c, k.Tab) {
				if len(v) > len(k.Val.B) && bytes.HasPrefix(v, k.Val.B) && len(k.Val.B) > 0 {
					cl = append(cl, "searched:is-prefix-of-stored")
					break
				}
			}
			if k.Tab == "u" && n >= 1 {
				for _, v := range columnValues(c, "") {
					if bytes.Equal(v, k.Val.B) {
						cl = append(cl, "searched:present-in-both-tables")
						break
					}
				}
			}
		case "plain":
			if k.PForm != "" {
				cl = append(cl, "plain-predicate:placeholder")
			}
		}
	})
	for _, r := range c.Rows {
		switch {
		case r.S.Null:
			cl = append(cl, "row:null")
		case len(r.S.B) == 0:
			cl = append(cl, "row:empty")
		case len(r.S.B) > 250:
			cl = append(cl, "row:long")
		}
		if bytes.ContainsAny(r.S.B, `'\`) {
			cl = append(cl, "row:quote-or-backslash")
		}
	}
	ids, _, excluded := expect(c)
	switch {
	case len(ids) == 0:
		cl = append(cl, "result:none")
	case excluded == 0:
		cl = append(cl, "result:all")
	default:
		cl = append(cl, "result:some")
	}
	return uniq(cl)
}

func orNone(s string) string {
	if s == "" {
		return "none"
	}
	return s
}

func shapeOf(k Cond) string {
	switch k.K {
	case "s":
		return "s"
	case "plain":
		return "p"
	case "ss":
		return "s=s"
	case "not":
		return "not(" + shapeOf(k.Kids[0]) + ")"
	}
	var parts []string
	for _, kid := range k.Kids {
		parts = append(parts, shapeOf(kid))
	}
	return "(" + strings.Join(parts, " "+k.K+" ") + ")"
}

func uniq(in []string) []string {
	seen := map[string]bool{}
	var out []string
	for _, s := range in {
		if !seen[s] {
			seen[s] = true
			out = append(out, s)
		}
	}
	return out
}

// ---------------------------------------------------------------------------------------------
// searching bytes for plaintext

func encodings(m []byte) [][]byte {
	var oct strings.Builder
	for _, c := range m {
		fmt.Fprintf(&oct, `\%03o`, c)
	}
	return [][]byte{m, []byte(hex.EncodeToString(m)), []byte(strings.ToUpper(hex.EncodeToString(m))), []byte(base64.StdEncoding.EncodeToString(m)), []byte(oct.String())}
}

func containsMarker(hay, marker []byte) bool {
	for _, e := range encodings(marker) {
		if bytes.Contains(hay, e) {
			return true
		}
	}
	return false
}

// secretMarkers: the markers of every stored and searched value of the searchable column.
func secretMarkers(c Case) [][]byte {
	seen := map[string]bool{}
	// what a plain column named s of the joined table holds, and what it is compared with, is in clear by design
	var public [][]byte
	if c.uPlain() {
		for _, u := range c.U {
			if u.S != nil && !u.S.Null {
				public = append(public, u.S.B)
			}
		}
		walkConds(c, func(k Cond) {
			if k.K == "s" && k.Tab == "u" && !k.Val.Null {
				public = append(public, k.Val.B)
			}
		})
	}
	isPublic := func(m []byte) bool {
		for _, p := range public {
			if bytes.Contains(p, m) {
				return true
			}
		}
		return false
	}
	var out [][]byte
	add := func(v pgprog.Val) {
		if m := pgprog.Marker(v); m != nil && !seen[string(m)] && !isPublic(m) {
			seen[string(m)] = true
			out = append(out, m)
		}
	}
	for _, r := range c.Rows {
		add(r.S)
		if r.Like != nil {
			// the plaintexts inside a value that looks like a stored searchable value are sealed in its envelope
			add(pgprog.Val{B: r.Like.EnvOf})
			add(pgprog.Val{B: r.Like.HashOf})
		}
	}
	for _, u := range c.U {
		if u.S != nil {
			add(*u.S)
		}
	}
	walkConds(c, func(k Cond) {
		if k.K == "s" {
			add(k.Val)
		}
	})
	return out
}

// clearInts: searched integer values (they cannot carry a marker) that appear as a whole token in text.
func clearInts(c Case, text []byte) []byte {
	if !isInt(c.Col.Logical()) {
		return nil
	}
	var found []byte
	digit := func(b byte) bool { return b >= '0' && b <= '9' }
	public := map[string]bool{}
	if c.uPlain() {
		walkConds(c, func(k Cond) {
			if k.K == "s" && k.Tab == "u" {
				public[string(bytes.TrimPrefix(k.Val.B, []byte("-")))] = true
			}
		})
	}
	walkConds(c, func(k Cond) {
		if k.K != "s" || k.Val.Null || len(k.Val.B) < 9 || found != nil || public[string(bytes.TrimPrefix(k.Val.B, []byte("-")))] {
			return
		}
		v := bytes.TrimPrefix(k.Val.B, []byte("-"))
		for off := 0; ; {
			i := bytes.Index(text[off:], v)
			if i < 0 {
				return
			}
			i += off
			if (i == 0 || !digit(text[i-1])) && (i+len(v) == len(text) || !digit(text[i+len(v)])) && !(i >= 2 && text[i-1] == 'x' && text[i-2] == '\\') {
				found = k.Val.B
				return
			}
			off = i + 1
		}
	})
	return found
}

func sameIDs(a, b []int) bool {
	if len(a) != len(b) {
		return false
	}
	for i := range a {
		if a[i] != b[i] {
			return false
		}
	}
	return true
}

// Feature "derived-table-as-right-join-operand" (open known finding, whole sessions of both databases): FROM u JOIN
// (SELECT ...) AS d - a derived table as the RIGHT operand of a join. The transparent-encryption observer that runs
// before HashQuery fails on such a statement (QueryDataEncryptor.onSelect -> MapColumnsToAliases -> parseJoinTablesInfo
// wants a table name there), the observer manager gives up on the first error and the proxy forwards the statement
// as the client wrote it: the search term reaches the database in clear. HashQuery alone (component layers) rewrites
// the statement correctly: the feature is attributed in the session layers only.

// openStatementClass names the open known finding the search statement of a session case belongs to as a whole
// ("" = none): the statements of such a class reach the database unprocessed, and what the proxy then does with the
// answer (pass it on, fail, close the session) is the same defect. The session layers count the case under that
// signature and do not judge it further.
func openStatementClass(c Case, db string) string {
	if d := c.Q.Derived; d != nil && d.Right && c.Q.Join && c.session {
		if sig := "derived-table-as-right-join-operand:" + db; R.IsKnown(sig) {
			return sig
		}
	}
	return ""
}

// condSig builds the signature of a search violation: kind + the feature of the case's searchable
// comparisons it is attributed to + the database. One feature per signature keeps known-finding classes
// narrow; when several features are present, a feature that is an open known finding wins (so that the
// class is excluded whatever else the case holds), otherwise the first one in the list. Only call it when a
// violation is being recorded (R.IsKnown counts exclusions).
func condSig(kind string, c Case, db string) string {
	var flip, pcast, emptyVal, hexLit, zeroX, hexNum, like, inOn, ns, nsLeft bool
	for _, r := range c.Rows {
		like = like || r.Like != nil
	}
	if c.Q.On != nil && c.Q.Join {
		walkCond(*c.Q.On, func(k Cond) { inOn = inOn || k.K == "s" })
	}
	walkConds(c, func(k Cond) {
		if k.K != "s" {
			return
		}
		flip = flip || k.Flip
		ns = ns || k.NS
		nsLeft = nsLeft || (k.NS && k.Flip)
		pcast = pcast || k.Form == "pcast"
		emptyVal = emptyVal || (len(k.Val.B) == 0 && !k.Val.Null)
		if db == "mysql" && k.Form == "lit" {
			lit := myLiteral(k.Val, c.Col.Logical(), k.Spell)
			hexLit = hexLit || strings.HasPrefix(lit, "X'") || strings.HasPrefix(lit, "x'")
			zeroX = zeroX || strings.HasPrefix(lit, "'0x") || strings.HasPrefix(lit, `"0x`)
			hexNum = hexNum || strings.HasPrefix(lit, "0x")
		}
	})
	var feats []string
	if c.Col.ClientID != "" && c.Col.ClientID != "alice" {
		feats = append(feats, "column-client-differs-from-connection")
	}
	if nsLeft {
		feats = append(feats, "null-safe-comparison-value-on-the-left")
	}
	if flip {
		feats = append(feats, "searchable-column-as-right-operand")
	}
	if pcast {
		feats = append(feats, "cast-around-placeholder")
	}
	if emptyVal {
		feats = append(feats, "empty-search-value")
	}
	if c.UCol != nil && c.Q.Join {
		feats = append(feats, "same-named-column-in-joined-table")
	}
	if like {
		feats = append(feats, "stored-value-looks-like-searchable-ciphertext")
	}
	if inOn {
		feats = append(feats, "search-condition-in-on-clause")
	}
	if c.Q.Sub && db != "mysql" {
		feats = append(feats, "search-condition-in-sub-query")
	}
	if d := c.Q.Derived; d != nil && d.Right && c.Q.Join && c.session {
		feats = append(feats, "derived-table-as-right-join-operand")
	}
	if c.Q.Derived != nil {
		feats = append(feats, "search-condition-over-derived-table")
	}
	if ns {
		feats = append(feats, "null-safe-comparison")
	}
	// literal spellings last: the smallest case of any class is written with them (spelling 0 of a bytes value is
	// X'..'), so they are weak evidence next to a feature that had to be drawn
	if hexLit {
		feats = append(feats, "hex-string-literal")
	}
	if zeroX {
		feats = append(feats, "string-literal-starting-with-0x")
	}
	if hexNum {
		feats = append(feats, "hex-number-literal")
	}
	// the symptom (kind) is left out for attributed classes: one root cause, one signature
	for _, f := range feats {
		if sig := f + ":" + db; R.IsKnown(sig) {
			return sig
		}
	}
	if len(feats) > 0 {
		return feats[0] + ":" + db
	}
	return kind + ":" + db
}

// ---------------------------------------------------------------------------------------------

func decodeCase(raw json.RawMessage) (Case, hx.Vs) {
	var c Case
	if err := json.Unmarshal(raw, &c); err != nil {
		return c, hx.Vs{{Sig: "harness:decode", Msg: err.Error()}}
	}
	return c, nil
}

func TestReplay(t *testing.T) {
	R.Replay(t, map[string]hx.ReplayHandler{
		"TestHashes": func(raw json.RawMessage) hx.Vs {
			var c HCase
			if err := json.Unmarshal(raw, &c); err != nil {
				return hx.Vs{{Sig: "harness:decode", Msg: err.Error()}}
			}
			vs, _, _ := CheckHashes(c)
			return vs
		},
		"TestRewritePG": func(raw json.RawMessage) hx.Vs {
			c, vs := decodeCase(raw)
			if vs != nil {
				return vs
			}
			return CheckRewritePG(c)
		},
		"TestRewriteMySQL": func(raw json.RawMessage) hx.Vs {
			c, vs := decodeCase(raw)
			if vs != nil {
				return vs
			}
			return CheckRewriteMySQL(c)
		},
		"TestSearchSessions": func(raw json.RawMessage) hx.Vs {
			c, vs := decodeCase(raw)
			if vs != nil {
				return vs
			}
			out, _ := CheckSession(c)
			return out
		},
		"TestSearchSessionsMySQL": func(raw json.RawMessage) hx.Vs {
			c, vs := decodeCase(raw)
			if vs != nil {
				return vs
			}
			out, _ := CheckSessionMySQL(c)
			return out
		},
	})
}
