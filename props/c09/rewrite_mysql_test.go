package c09

import (
	"bytes"
	"encoding/hex"
	"fmt"
	"sort"
	"strconv"
	"strings"
	"testing"

	"pgregory.net/rapid"

	"github.com/cossacklabs/acra/decryptor/base"
	myproxy "github.com/cossacklabs/acra/decryptor/mysql"
	base_mysql "github.com/cossacklabs/acra/decryptor/mysql/base"
	"github.com/cossacklabs/acra/encryptor/base/config"
	myenc "github.com/cossacklabs/acra/encryptor/mysql"
	myhash "github.com/cossacklabs/acra/hmac/decryptor/mysql"
	"github.com/cossacklabs/acra/sqlparser"
	mydialect "github.com/cossacklabs/acra/sqlparser/dialect/mysql"

	"verif/internal/fix"
	"verif/internal/hx"
	"verif/internal/pgprog"
	"verif/internal/pgsess"
)

// ---------------------------------------------------------------------------------------------
// rendering (MySQL)

func myString(b []byte, dq bool) string {
	q := byte('\'')
	if dq {
		q = '"'
	}
	var s strings.Builder
	s.WriteByte(q)
	for _, c := range b {
		switch c {
		case q:
			s.WriteByte(q)
			s.WriteByte(q)
		case '\\':
			s.WriteString(`\\`)
		case 0:
			s.WriteString(`\0`)
		default:
			s.WriteByte(c)
		}
	}
	s.WriteByte(q)
	return s.String()
}

func myPrintable(b []byte) bool {
	for _, c := range b {
		if c < 0x20 || c > 0x7e {
			return false
		}
	}
	return true
}

func myLiteral(v pgprog.Val, lt pgsess.ColType, spell int) string {
	if v.Null {
		return "NULL"
	}
	switch lt {
	case pgsess.Int4, pgsess.Int8:
		return string(v.B)
	case pgsess.Text:
		return myString(v.B, spell%2 == 1)
	}
	switch spell % 4 {
	case 0:
		return "X'" + hex.EncodeToString(v.B) + "'"
	case 1:
		if len(v.B) > 0 {
			return "0x" + strings.ToUpper(hex.EncodeToString(v.B))
		}
		return "''"
	case 2:
		if myPrintable(v.B) {
			return myString(v.B, false)
		}
		return "X'" + strings.ToUpper(hex.EncodeToString(v.B)) + "'"
	}
	return "x'" + hex.EncodeToString(v.B) + "'"
}

type myRendered struct {
	SQL    string
	Params []pgprog.Val
	PTypes []pgsess.ColType
	Search []bool
}

func renderMySQL(c Case) myRendered {
	var r myRendered
	lt := c.Col.Logical()
	tq, idq := c.quals()
	param := func(v pgprog.Val, t pgsess.ColType, search bool) string {
		r.Params = append(r.Params, v)
		r.PTypes = append(r.PTypes, t)
		r.Search = append(r.Search, search)
		return "?"
	}
	var cond func(k Cond) string
	cond = func(k Cond) string {
		switch k.K {
		case "s":
			var val string
			scol, search := c.sCol(k)
			if k.Form == "lit" {
				val = myLiteral(k.Val, lt, k.Spell)
			} else {
				val = param(k.Val, lt, search)
			}
			op := "="
			if k.Neg {
				op = "<>"
				if k.Bang {
					op = "!="
				}
			}
			if k.NS {
				// the null-safe operator has no negated spelling
				if k.Flip {
					scol, val = val, scol
				}
				if k.Neg {
					return "NOT (" + scol + " <=> " + val + ")"
				}
				return scol + " <=> " + val
			}
			if k.Flip {
				return val + " " + op + " " + scol
			}
			return scol + " " + op + " " + val
		case "plain":
			col, t := tq+k.Col, pgsess.Text
			switch k.Col {
			case "id":
				col, t = idq+"id", pgsess.Int4
			case "n":
				t = pgsess.Int4
			case "tag":
				col = c.uq() + "tag"
			}
			var val string
			switch {
			case k.PForm != "":
				val = param(pgprog.Val{B: []byte(k.Arg)}, t, false)
			case t == pgsess.Int4:
				val = k.Arg
			default:
				val = "'" + k.Arg + "'"
			}
			return col + " " + k.Op + " " + val
		case "ss":
			op := "="
			if k.Neg {
				op = "<>"
			}
			if k.Flip {
				return c.uq() + "s " + op + " " + tq + "s"
			}
			return tq + "s " + op + " " + c.uq() + "s"
		case "not":
			return "NOT (" + cond(k.Kids[0]) + ")"
		}
		var parts []string
		for _, kid := range k.Kids {
			parts = append(parts, cond(kid))
		}
		return "(" + strings.Join(parts, " "+strings.ToUpper(k.K)+" ") + ")"
	}
	var b strings.Builder
	if c.Q.Sub && !c.Q.Join && !c.Q.Alias {
		fmt.Fprintf(&b, "SELECT id, s FROM t WHERE id IN (SELECT %sid FROM t", idq)
		if c.Q.Alias {
			b.WriteString(" AS q")
		}
		b.WriteString(" WHERE " + cond(c.Q.Where) + ")")
		r.SQL = b.String()
		return r
	}
	fmt.Fprintf(&b, "SELECT %sid, %ss", idq, tq)
	if c.Q.Join {
		b.WriteString(", " + c.uq() + "tag")
	}
	b.WriteString(c.fromClause(cond))
	if c.Q.Join && c.Q.Comma {
		b.WriteString("(" + cond(c.Q.Where) + ")")
	} else {
		b.WriteString(" WHERE " + cond(c.Q.Where))
	}
	r.SQL = b.String()
	return r
}

// ---------------------------------------------------------------------------------------------
// a literal evaluator of the emitted statement over acra's MySQL syntax tree

type myVal struct {
	null  bool
	b     []byte
	isNum bool
}

type myEnv struct {
	c      Case
	trow   []pgsess.Value
	urow   []pgsess.Value // nil when not joined
	talias string
	ualias string
	params [][]byte
	err    error
	// tvisible: the columns of t the statement can name (nil: all) - those a derived table over t lists
	tvisible map[string]bool
}

func (e *myEnv) fail(f string, a ...any) myVal {
	if e.err == nil {
		e.err = fmt.Errorf(f, a...)
	}
	return myVal{null: true}
}

var tCols = map[string]int{"id": 0, "s": 1, "p": 2, "n": 3}
var uCols = map[string]int{"id": 0, "ref": 1, "tag": 2, "s": 3}

func (e *myEnv) column(n *sqlparser.ColName) myVal {
	name := strings.ToLower(n.Name.String())
	qual := strings.ToLower(n.Qualifier.Name.String())
	fromT := func() (myVal, bool) {
		i, ok := tCols[name]
		if !ok || (e.tvisible != nil && !e.tvisible[name]) {
			return myVal{}, false
		}
		v := e.trow[i]
		return myVal{null: v.Null, b: v.B, isNum: name == "id" || name == "n"}, true
	}
	fromU := func() (myVal, bool) {
		i, ok := uCols[name]
		if !ok || e.urow == nil || i >= len(e.urow) {
			return myVal{}, false
		}
		v := e.urow[i]
		return myVal{null: v.Null, b: v.B, isNum: name != "tag" && name != "s"}, true
	}
	switch {
	case qual == "":
		_, inT := tCols[name]
		_, inU := uCols[name]
		if inT && inU && e.urow != nil && (name != "s" || len(e.urow) > 3) {
			return e.fail("column %s is ambiguous", sqlparser.String(n))
		}
		if v, ok := fromT(); ok {
			return v
		}
		if v, ok := fromU(); ok {
			return v
		}
	case qual == e.ualias || (qual == "u" && e.ualias == "u"):
		if v, ok := fromU(); ok {
			return v
		}
	case qual == e.talias || (qual == "t" && e.talias == "t"):
		if v, ok := fromT(); ok {
			return v
		}
	}
	return e.fail("unknown column %s", sqlparser.String(n))
}

func (e *myEnv) intArg(x sqlparser.Expr) int {
	v := e.operand(x)
	n, err := strconv.Atoi(string(v.b))
	if err != nil {
		e.fail("substr argument %q", v.b)
	}
	return n
}

func substrBytes(b []byte, from, ln int) []byte {
	start := from - 1
	if start < 0 {
		ln += start
		start = 0
	}
	if start > len(b) {
		start = len(b)
	}
	end := start + ln
	if end > len(b) {
		end = len(b)
	}
	if end < start {
		end = start
	}
	return b[start:end]
}

func (e *myEnv) operand(x sqlparser.Expr) myVal {
	switch n := x.(type) {
	case *sqlparser.ColName:
		return e.column(n)
	case *sqlparser.ParenExpr:
		return e.operand(n.Expr)
	case *sqlparser.SubstrExpr:
		v := e.column(n.Name)
		if v.null {
			return v
		}
		return myVal{b: substrBytes(v.b, e.intArg(n.From), e.intArg(n.To))}
	case *sqlparser.FuncExpr:
		if fn := strings.ToLower(n.Name.String()); (fn == "substr" || fn == "substring") && len(n.Exprs) == 3 {
			var args []sqlparser.Expr
			for _, se := range n.Exprs {
				ae, ok := se.(*sqlparser.AliasedExpr)
				if !ok {
					return e.fail("substr argument %T", se)
				}
				args = append(args, ae.Expr)
			}
			v := e.operand(args[0])
			if v.null {
				return v
			}
			return myVal{b: substrBytes(v.b, e.intArg(args[1]), e.intArg(args[2]))}
		}
		return e.fail("function %s", sqlparser.String(n))
	case *sqlparser.ConvertExpr:
		v := e.operand(n.Expr)
		v.isNum = false
		return v
	case *sqlparser.SQLVal:
		switch n.Type {
		case sqlparser.StrVal:
			return myVal{b: n.Val}
		case sqlparser.IntVal:
			return myVal{b: n.Val, isNum: true}
		case sqlparser.HexVal:
			b, err := hex.DecodeString(string(n.Val))
			if err != nil {
				return e.fail("hex literal %q", n.Val)
			}
			return myVal{b: b}
		case sqlparser.HexNum:
			s := strings.TrimPrefix(strings.TrimPrefix(string(n.Val), "0x"), "0X")
			if len(s) == 0 {
				return e.fail("hex number without digits %q (MySQL reads it as an identifier)", n.Val)
			}
			if len(s)%2 == 1 {
				s = "0" + s
			}
			b, err := hex.DecodeString(s)
			if err != nil {
				return e.fail("hex number %q", n.Val)
			}
			return myVal{b: b}
		case sqlparser.ValArg:
			i, err := strconv.Atoi(strings.TrimPrefix(string(n.Val), ":v"))
			if err != nil || i < 1 || i > len(e.params) {
				return e.fail("placeholder %q", n.Val)
			}
			if e.params[i-1] == nil {
				return myVal{null: true}
			}
			return myVal{b: e.params[i-1]}
		}
		return e.fail("literal type %d", n.Type)
	case *sqlparser.NullVal:
		return myVal{null: true}
	}
	return e.fail("operand %T", x)
}

func (e *myEnv) cond(x sqlparser.Expr) tri {
	switch n := x.(type) {
	case *sqlparser.AndExpr:
		l, r := e.cond(n.Left), e.cond(n.Right)
		switch {
		case l == no || r == no:
			return no
		case l == unknown || r == unknown:
			return unknown
		}
		return yes
	case *sqlparser.OrExpr:
		l, r := e.cond(n.Left), e.cond(n.Right)
		switch {
		case l == yes || r == yes:
			return yes
		case l == unknown || r == unknown:
			return unknown
		}
		return no
	case *sqlparser.NotExpr:
		return triNot(e.cond(n.Expr))
	case *sqlparser.ParenExpr:
		return e.cond(n.Expr)
	case *sqlparser.ComparisonExpr:
		l, r := e.operand(n.Left), e.operand(n.Right)
		if n.Operator == sqlparser.NullSafeEqualStr && (l.null || r.null) {
			if l.null && r.null {
				return yes
			}
			return no
		}
		if l.null || r.null {
			return unknown
		}
		eq := bytes.Equal(l.b, r.b)
		if l.isNum && r.isNum || l.isNum != r.isNum {
			// numeric context when a number is involved and both sides read as numbers
			a, e1 := strconv.ParseInt(string(l.b), 10, 64)
			b, e2 := strconv.ParseInt(string(r.b), 10, 64)
			if e1 == nil && e2 == nil {
				eq = a == b
			}
		}
		switch n.Operator {
		case sqlparser.EqualStr, sqlparser.NullSafeEqualStr:
			if eq {
				return yes
			}
			return no
		case sqlparser.NotEqualStr, "<>":
			if eq {
				return no
			}
			return yes
		}
		e.fail("operator %s", n.Operator)
		return unknown
	}
	e.fail("condition %T", x)
	return unknown
}

// myMatch is one row (pair) the emitted statement selects.
type myMatch struct{ t, u []pgsess.Value }

// runMySQL parses the emitted statement with acra's parser and evaluates it over the stored rows.
func runMySQL(c Case, sql string, params [][]byte, trows, urows [][]pgsess.Value) ([]int, error) {
	ms, _, err := runMySQLMatches(c, sql, params, trows, urows)
	var ids []int
	for _, m := range ms {
		id, _ := strconv.Atoi(string(m.t[0].B))
		ids = append(ids, id)
	}
	sort.Ints(ids)
	return ids, err
}

// runMySQLMatches returns the selected rows and the statement (for its select list).
func runMySQLMatches(c Case, sql string, params [][]byte, trows, urows [][]pgsess.Value) ([]myMatch, *sqlparser.Select, error) {
	stmt, err := sqlparser.New(sqlparser.ModeStrict).Parse(sql)
	if err != nil {
		return nil, nil, fmt.Errorf("emitted statement does not parse: %v", err)
	}
	sel, ok := stmt.(*sqlparser.Select)
	if !ok {
		return nil, nil, fmt.Errorf("emitted statement is a %T", stmt)
	}
	// SELECT ... FROM t WHERE id IN (SELECT id FROM t ... WHERE cond): the rows of t whose id the inner SELECT yields
	if sel.Where != nil {
		if in, ok := sel.Where.Expr.(*sqlparser.ComparisonExpr); ok && in.Operator == sqlparser.InStr {
			if sub, ok := in.Right.(*sqlparser.Subquery); ok {
				inner, ok := sub.Select.(*sqlparser.Select)
				if col, isCol := in.Left.(*sqlparser.ColName); !ok || !isCol || !strings.EqualFold(col.Name.String(), "id") {
					return nil, sel, fmt.Errorf("unexpected sub-query shape: %s", sqlparser.String(sel.Where))
				}
				ms, err := runMySQLSelect(c, inner, params, trows, urows)
				inSet := map[string]bool{}
				for _, m := range ms {
					inSet[string(m.t[0].B)] = true
				}
				var out []myMatch
				for _, tr := range trows {
					if inSet[string(tr[0].B)] {
						out = append(out, myMatch{t: tr})
					}
				}
				return out, sel, err
			}
		}
	}
	ms, err := runMySQLSelect(c, sel, params, trows, urows)
	return ms, sel, err
}

func runMySQLSelect(c Case, sel *sqlparser.Select, params [][]byte, trows, urows [][]pgsess.Value) ([]myMatch, error) {
	env := &myEnv{c: c, talias: "t", ualias: "u", params: params}
	var on sqlparser.Expr
	withU := false
	var derivedRows *[][]pgsess.Value
	var scan func(te sqlparser.TableExpr) error
	scan = func(te sqlparser.TableExpr) error {
		switch n := te.(type) {
		case *sqlparser.AliasedTableExpr:
			if sub, ok := n.Expr.(*sqlparser.Subquery); ok {
				// a derived table over t: (SELECT <columns of t> FROM t [AS q] [WHERE ..]) AS alias
				inner, ok := sub.Select.(*sqlparser.Select)
				if !ok || n.As.IsEmpty() || derivedRows != nil {
					return fmt.Errorf("derived table %s", sqlparser.String(n))
				}
				rows, cols, err := runMySQLDerived(c, inner, params, trows)
				if err != nil {
					return err
				}
				derivedRows, env.tvisible, env.talias = &rows, cols, strings.ToLower(n.As.String())
				return nil
			}
			tn, ok := n.Expr.(sqlparser.TableName)
			if !ok {
				return fmt.Errorf("table expression %T", n.Expr)
			}
			if strings.EqualFold(tn.Name.String(), "t") && !n.As.IsEmpty() {
				env.talias = strings.ToLower(n.As.String())
			}
			if strings.EqualFold(tn.Name.String(), "u") {
				withU = true
				if !n.As.IsEmpty() {
					env.ualias = strings.ToLower(n.As.String())
				}
			}
		case *sqlparser.JoinTableExpr:
			on = n.Condition.On
			if err := scan(n.LeftExpr); err != nil {
				return err
			}
			return scan(n.RightExpr)
		default:
			return fmt.Errorf("table expression %T", te)
		}
		return nil
	}
	for _, te := range sel.From {
		if err := scan(te); err != nil {
			return nil, err
		}
	}
	var out []myMatch
	emit := func(tr, ur []pgsess.Value) {
		env.trow, env.urow = tr, ur
		if on != nil && env.cond(on) != yes {
			return
		}
		if sel.Where == nil || env.cond(sel.Where.Expr) == yes {
			out = append(out, myMatch{t: tr, u: ur})
		}
	}
	if derivedRows != nil {
		trows = *derivedRows
	}
	for _, tr := range trows {
		if !withU {
			emit(tr, nil)
			continue
		}
		for _, ur := range urows {
			emit(tr, ur)
		}
	}
	return out, env.err
}

// runMySQLDerived evaluates the SELECT of a derived table over t: which rows of t it holds and which columns it lists
// (columns keep their names: an unrenamed column list of table t, qualified or not).
func runMySQLDerived(c Case, sel *sqlparser.Select, params [][]byte, trows [][]pgsess.Value) ([][]pgsess.Value, map[string]bool, error) {
	cols := map[string]bool{}
	for _, se := range sel.SelectExprs {
		ae, ok := se.(*sqlparser.AliasedExpr)
		if !ok || !ae.As.IsEmpty() {
			return nil, nil, fmt.Errorf("derived table: select expression %s", sqlparser.String(se))
		}
		col, ok := ae.Expr.(*sqlparser.ColName)
		if !ok {
			return nil, nil, fmt.Errorf("derived table: select expression %s", sqlparser.String(se))
		}
		name := strings.ToLower(col.Name.String())
		if _, ok := tCols[name]; !ok {
			return nil, nil, fmt.Errorf("derived table: unknown column %s", sqlparser.String(col))
		}
		cols[name] = true
	}
	ms, err := runMySQLSelect(c, sel, params, trows, nil)
	if err != nil {
		return nil, nil, err
	}
	rows := make([][]pgsess.Value, 0, len(ms))
	for _, m := range ms {
		if m.u != nil {
			return nil, nil, fmt.Errorf("derived table over a join")
		}
		rows = append(rows, m.t)
	}
	return rows, cols, nil
}

// CheckRewriteMySQL drives the MySQL HashQuery observer and evaluates what it emits literally.
func CheckRewriteMySQL(c Case) (vs hx.Vs) {
	sqlparser.SetDefaultDialect(mydialect.NewMySQLDialect())
	w := fix.TheWorld()
	c, rerr := resolve(c)
	if rerr != nil {
		vs.Add("harness:resolve", "%v", rerr)
		return
	}
	tabs := tables(c)
	schema, err := config.MapTableSchemaStoreFromConfig([]byte(pgprog.SchemaYAML(tabs)), config.UseMySQL)
	if err != nil {
		vs.Add("harness:schema", "%v\n%s", err, pgprog.SchemaYAML(tabs))
		return
	}
	trows, urows, ok := storedRows(c, w, &vs)
	if !ok {
		return
	}
	r := renderMySQL(c)
	sig := func(kind string) string { return condSig(kind, c, "mysql") }
	parser := sqlparser.New(sqlparser.ModeStrict)
	if _, err := parser.Parse(r.SQL); err != nil {
		vs.Add("harness:mysql-render", "generated statement does not parse: %v: %s", err, r.SQL)
		return
	}
	ctx := base.SetClientSessionToContext(fix.Ctx(w.Alice), newMemSession())
	hq := myhash.NewHashQuery(w.KS, schema, w.Reg)
	obj := myenc.NewOnQueryObjectFromQuery(r.SQL, parser)
	outSQL := r.SQL
	var stmt sqlparser.Statement
	var qerr error
	if hx.Guard(&vs, "HashQuery.OnQuery:mysql", func() {
		out, changed, err := hq.OnQuery(ctx, obj)
		qerr = err
		if err == nil && changed {
			outSQL = out.Query()
			stmt, qerr = out.Statement()
		}
	}) {
		return
	}
	if qerr != nil {
		vs.Add(sig("rewrite-error"), "OnQuery(%.200s): %v", r.SQL, qerr)
		return
	}
	var params [][]byte
	if len(r.Params) > 0 {
		if stmt == nil {
			// unchanged statement: the proxy binds against what it parsed from the client's text
			if stmt, err = parser.Parse(r.SQL); err != nil {
				vs.Add("harness:mysql-render", "%v", err)
				return
			}
		}
		var values []base.BoundValue
		for i, v := range r.Params {
			pt := base_mysql.TypeVarString
			switch r.PTypes[i] {
			case pgsess.Int4:
				pt = base_mysql.TypeLong
			case pgsess.Int8:
				pt = base_mysql.TypeLongLong
			case pgsess.Bytea:
				pt = base_mysql.TypeBlob
			}
			var data []byte
			if !v.Null {
				data = append([]byte{}, v.B...)
			}
			values = append(values, myproxy.NewMysqlCopyTextBoundValue(data, base.BinaryFormat, pt))
		}
		newVals := values
		var berr error
		if hx.Guard(&vs, "HashQuery.OnBind:mysql", func() {
			nv, changed, err := hq.OnBind(ctx, stmt, values)
			berr = err
			if err == nil && changed {
				newVals = nv
			}
		}) {
			return
		}
		if berr != nil {
			vs.Add(sig("bind-error"), "OnBind(%.200s): %v", outSQL, berr)
			return
		}
		if len(newVals) != len(values) {
			vs.Add(sig("bind-count"), "OnBind returned %d values for %d parameters", len(newVals), len(values))
			return
		}
		for _, v := range newVals {
			d, _ := v.GetData(nil)
			params = append(params, d)
		}
	}
	hay := []byte(outSQL)
	for _, p := range params {
		hay = append(append(hay, 0), p...)
	}
	for _, m := range secretMarkers(c) {
		if containsMarker(hay, m) {
			vs.Add(sig("search-term-in-clear"), "what the database would receive holds the plaintext marker %s: %.300s", m, outSQL)
			break
		}
	}
	if v := clearInts(c, []byte(outSQL)); v != nil {
		vs.Add(sig("search-term-in-clear"), "the emitted statement holds the searched integer %s: %.300s", v, outSQL)
	}
	for i, p := range params {
		if r.Search[i] && isInt(r.PTypes[i]) && p != nil && bytes.Equal(p, r.Params[i].B) {
			vs.Add(sig("search-term-in-clear"), "parameter %d still holds the searched integer %s", i+1, p)
		}
	}
	got, err := runMySQL(c, outSQL, params, trows, urows)
	if err != nil {
		vs.Add(sig("emitted-statement-rejected"), "%.300s: %v", outSQL, err)
		return
	}
	want, dontCare, _ := expect(c)
	var filtered, wantF []int
	for _, id := range got {
		if !dontCare[id] {
			filtered = append(filtered, id)
		}
	}
	_ = wantF
	if !sameIDs(filtered, want) {
		vs.Add(sig("result-set"), "rows selected %v, rows whose plaintext satisfies the condition %v\n  sent:    %.300s\n  emitted: %.400s", filtered, want, r.SQL, outSQL)
	}
	return
}

func TestRewriteMySQL(t *testing.T) {
	R.Rule("TestRewriteMySQL", "as TestRewritePG with the MySQL dialect (incl. derived tables over t; the null-safe operator is <=>, un-negated, col <=> value / value <=> col / col <=> NULL): literals as '..', \"..\", X'..', 0x.., decimal; placeholders ?; HashQuery.OnQuery on the statement object, OnBind on the same (mutated) syntax tree as the proxy does; the emitted text is re-parsed with acra's sqlparser and evaluated by a small literal evaluator (AND/OR/NOT in three-valued logic, =, <>, <=>, substr/convert, hex literals, join on a plain column, a derived table over t with its own WHERE) over the values the write side stored. Same oracle and non-trivial rule")
	hx.Checks(500, 6000)
	rapid.Check(t, func(rt *rapid.T) {
		c := genCase(rt, genOpts{mysql: true})
		vs := CheckRewriteMySQL(c)
		rc, _ := resolve(c)
		R.Seen("TestRewriteMySQL", c, nontrivial(rc), classesOf(rc, "mysql")...)
		R.Report(rt, "TestRewriteMySQL", c, vs)
	})
}
