package c01

import (
	"bytes"
	"crypto/sha256"
	"encoding/binary"
	"fmt"
	"sync"
	"testing"

	"pgregory.net/rapid"

	"github.com/cossacklabs/acra/acrablock"
	"github.com/cossacklabs/acra/crypto"
	"github.com/cossacklabs/acra/keystore"

	"verif/internal/fix"
	"verif/internal/gen"
	"verif/internal/hx"
)

// An AcraBlock names the key that wraps its data key by a 2-byte id (sha256 of the key). Two keys of
// one client's history share an id with probability 2^-16 per pair - rare by chance, permanent for the
// data concerned, and cheap to construct on purpose: the harness derives keys from a counter until two
// collide. Oracle: a value protected under either key is revealed to its owner whatever the order of
// the keys the keystore offers and whatever other keys stand between them.
type KeyIDCase struct {
	Seed   int     `json:"seed"`   // selects the colliding pair
	Under  string  `json:"under"`  // the value is protected under the "older" or the "newer" key of the pair
	Order  string  `json:"order"`  // newest-first | oldest-first: how the keystore lists the keys
	Others int     `json:"others"` // unrelated keys in the history (0-3), interleaved
	Form   string  `json:"form"`   // raw | container
	Plain  gen.Hex `json:"plain"`
}

type collidingPair struct{ older, newer []byte }

var (
	pairMu sync.Mutex
	pairs  = map[int]collidingPair{}
)

func derivedKey(seed, i int) []byte {
	var b [16]byte
	binary.LittleEndian.PutUint64(b[:8], uint64(seed))
	binary.LittleEndian.PutUint64(b[8:], uint64(i))
	h := sha256.Sum256(append([]byte("verif C01 key id collision"), b[:]...))
	return h[:]
}

func keyID(k []byte) [2]byte {
	id, err := acrablock.Sha256KeyIDGenerator{}.GenerateKeyID(k, nil)
	if err != nil || len(id) != 2 {
		panic(fmt.Sprintf("key id: %v %x", err, id))
	}
	return [2]byte{id[0], id[1]}
}

func pairFor(seed int) collidingPair {
	pairMu.Lock()
	defer pairMu.Unlock()
	if p, ok := pairs[seed]; ok {
		return p
	}
	seen := map[[2]byte][]byte{}
	for i := 0; ; i++ {
		k := derivedKey(seed, i)
		id := keyID(k)
		if other, ok := seen[id]; ok {
			p := collidingPair{older: other, newer: k}
			pairs[seed] = p
			return p
		}
		seen[id] = k
	}
}

// symStub offers a constructed symmetric key history for one identity and the fixture's keys for all others.
type symStub struct {
	keystore.ServerKeyStore
	id   []byte
	keys [][]byte // in the order the keystore lists them
	cur  []byte
}

func cpKeys(ks [][]byte) [][]byte {
	out := make([][]byte, len(ks))
	for i, k := range ks {
		out[i] = append([]byte(nil), k...)
	}
	return out
}

func (s symStub) GetClientIDSymmetricKeys(id []byte) ([][]byte, error) {
	if bytes.Equal(id, s.id) {
		return cpKeys(s.keys), nil
	}
	return s.ServerKeyStore.GetClientIDSymmetricKeys(id)
}

func (s symStub) GetClientIDSymmetricKey(id []byte) ([]byte, error) {
	if bytes.Equal(id, s.id) {
		return append([]byte(nil), s.cur...), nil
	}
	return s.ServerKeyStore.GetClientIDSymmetricKey(id)
}

// CheckKeyID evaluates the case through every reveal entry point for AcraBlocks.
func CheckKeyID(c KeyIDCase) (vs hx.Vs) {
	w := fix.TheWorld()
	p := pairFor(c.Seed)
	// history, oldest first: [other0] older [other1] newer [other2]
	var hist [][]byte
	other := func(i int) {
		if i < c.Others {
			hist = append(hist, derivedKey(c.Seed+1000, 7+i))
		}
	}
	other(0)
	hist = append(hist, p.older)
	other(1)
	hist = append(hist, p.newer)
	other(2)
	listed := cpKeys(hist)
	if c.Order == "newest-first" {
		for i, j := 0, len(listed)-1; i < j; i, j = i+1, j-1 {
			listed[i], listed[j] = listed[j], listed[i]
		}
	}
	id := []byte("keyid-client")
	stub := symStub{ServerKeyStore: w.KS, id: id, keys: listed, cur: hist[len(hist)-1]}
	w2 := *w
	w2.KS = stub
	w2.Reg = crypto.NewRegistryHandler(stub)
	w2.Svc = fix.Translator(stub, nil, nil)
	key := p.older
	if c.Under == "newer" {
		key = p.newer
	}
	plain := []byte(c.Plain)
	block, err := acrablock.CreateAcraBlock(plain, append([]byte(nil), key...), nil)
	if err != nil {
		vs.Add("harness:create", "%v", err)
		return vs
	}
	value, form := block, fix.FormRaw
	if c.Form == "container" {
		value, err = crypto.SerializeEncryptedData(block, crypto.AcraBlockEnvelopeID)
		if err != nil {
			vs.Add("harness:serialize", "%v", err)
			return vs
		}
		form = fix.FormContainer
	}
	for _, r := range w2.Reveals(id, fix.KindBlock) {
		if !r.Accepts(fix.KindBlock, form) || r.VerifiesHash {
			continue
		}
		r := r
		var out []byte
		var rerr error
		if hx.Guard(&vs, r.Name, func() { out, rerr = r.F(append([]byte(nil), value...)) }) {
			continue
		}
		if rerr != nil || !bytes.Equal(out, plain) {
			vs.Add("owner-cannot-read:key-id-collision:"+r.Name, "value protected under the %s of two keys of one history that share the 2-byte key id, keys listed %s with %d other keys: %s failed for the owner (%v, %d bytes back, %d written)", c.Under, c.Order, c.Others, r.Name, fix.Describe(rerr), len(out), len(plain))
		}
	}
	return vs
}

func TestKeyIDCollision(t *testing.T) {
	R.Rule("TestKeyIDCollision", "a symmetric key history of one identity that holds two keys with the same 2-byte AcraBlock key id (constructed by deriving keys from a counter until two collide) and 0-3 other keys, listed newest or oldest first; a value protected under the older or the newer key of the pair, raw or in container form, through every reveal entry point for AcraBlocks (library, handler, registry, translator, column chain); the owner reads it back exactly; non-trivial = always (every case holds a collision)")
	hx.Checks(150, 2000)
	rapid.Check(t, func(rt *rapid.T) {
		c := KeyIDCase{
			Seed:   rapid.IntRange(0, 7).Draw(rt, "seed"),
			Under:  rapid.SampledFrom([]string{"older", "older", "newer"}).Draw(rt, "under"),
			Order:  rapid.SampledFrom([]string{"newest-first", "oldest-first"}).Draw(rt, "order"),
			Others: rapid.IntRange(0, 3).Draw(rt, "others"),
			Form:   rapid.SampledFrom([]string{"raw", "container"}).Draw(rt, "form"),
			Plain:  gen.Bytes(rt, "plain", 200),
		}
		if len(c.Plain) == 0 {
			c.Plain = gen.Hex("x")
		}
		vs := CheckKeyID(c)
		R.Seen("TestKeyIDCollision", c, true, "under:"+c.Under, "order:"+c.Order, "form:"+c.Form, fmt.Sprintf("others:%d", c.Others))
		R.Report(rt, "TestKeyIDCollision", c, vs)
	})
}
