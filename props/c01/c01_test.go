// Package c01: protect-then-reveal returns the original bytes for the owning client.
package c01

import (
	"bytes"
	"encoding/json"
	"fmt"
	"os"
	"strings"
	"testing"

	"pgregory.net/rapid"

	"github.com/cossacklabs/acra/crypto"
	encryptor "github.com/cossacklabs/acra/encryptor/base"
	"github.com/cossacklabs/acra/encryptor/base/config"
	"github.com/cossacklabs/acra/hmac"

	"verif/internal/fix"
	"verif/internal/gen"
	"verif/internal/hx"
)

var R = hx.New("C01")

func TestMain(m *testing.M) { os.Exit(R.Main(m)) }

// ---------------------------------------------------------------------------------------------
// protect entry points

// Protector is one protect-type entry point: returns the stored form for plaintext x.
type Protector struct {
	Name string
	Kind string
	// Form of the value it produces (decides which reveal entry points apply).
	Form string
	F    func(w *fix.World, id, x []byte) ([]byte, error)
}

func setting(kind string, searchable, reencrypt bool) config.ColumnEncryptionSetting {
	env := config.CryptoEnvelopeTypeAcraStruct
	if kind == fix.KindBlock {
		env = config.CryptoEnvelopeTypeAcraBlock
	}
	t := true
	s := &config.BasicColumnEncryptionSetting{Name: "c", CryptoEnvelope: &env, Searchable: searchable, ReEncryptToAcraBlock: &t}
	if !reencrypt && !searchable {
		s.ReEncryptToAcraBlock = nil
	}
	if err := s.Init(false); err != nil {
		panic(fmt.Sprintf("setting %s/%v/%v: %v", kind, searchable, reencrypt, err))
	}
	return s
}

// writeChain is the proxies' write-side chain for a column without tokenization/masking.
func writeChain(w *fix.World) encryptor.DataEncryptor {
	se, err := hmac.NewSearchableEncryptor(w.KS, w.Reg, w.Reg)
	if err != nil {
		panic(err)
	}
	return encryptor.NewChainDataEncryptor(crypto.NewEncryptHandler(w.Reg), se, crypto.NewReEncryptHandler(w.KS))
}

// yamlSetting is the setting of column c as the proxies get it: loaded from an encryptor configuration, so that the
// loader's defaults apply (crypto_envelope acrablock, reencrypting_to_acrablocks true) - settings built as
// literals do not have them.
var yamlSettings = map[string]config.ColumnEncryptionSetting{}

func yamlSetting(extra string) config.ColumnEncryptionSetting {
	if s, ok := yamlSettings[extra]; ok {
		return s
	}
	yaml := "schemas:\n  - table: t\n    columns: [id, c]\n    encrypted:\n      - column: c\n" + extra
	store, err := config.MapTableSchemaStoreFromConfig([]byte(yaml), config.UsePostgreSQL)
	if err != nil {
		panic(fmt.Sprintf("yaml setting %q: %v", extra, err))
	}
	s := store.GetTableSchema("t").GetColumnEncryptionSettings("c")
	if s == nil {
		panic("yaml setting: column not configured")
	}
	yamlSettings[extra] = s
	return s
}

func handlerOf(kind string) crypto.ContainerHandler {
	id := byte(crypto.AcraStructEnvelopeID)
	if kind == fix.KindBlock {
		id = crypto.AcraBlockEnvelopeID
	}
	h, err := crypto.GetHandlerByEnvelopeID(id)
	if err != nil {
		panic(err)
	}
	return h
}

func protectors() []Protector {
	var ps []Protector
	for _, kind := range fix.Kinds {
		kind := kind
		for _, form := range fix.Forms {
			form := form
			ps = append(ps, Protector{"lib/" + kind + "/" + form, kind, form, func(w *fix.World, id, x []byte) ([]byte, error) {
				return w.Protect(id, kind, form, x, -1)
			}})
		}
		ps = append(ps,
			Protector{"Registry.EncryptWithClientID/" + kind, kind, fix.FormContainer, func(w *fix.World, id, x []byte) ([]byte, error) {
				return w.Reg.EncryptWithClientID(id, x, setting(kind, false, false))
			}},
			Protector{"Registry.EncryptWithHandler/" + kind, kind, fix.FormContainer, func(w *fix.World, id, x []byte) ([]byte, error) {
				return w.Reg.EncryptWithHandler(handlerOf(kind), id, x)
			}},
			Protector{"EncryptHandler/" + kind, kind, fix.FormContainer, func(w *fix.World, id, x []byte) ([]byte, error) {
				return crypto.NewEncryptHandler(w.Reg).EncryptWithClientID(id, x, setting(kind, false, false))
			}},
			Protector{"writeChain/" + kind, kind, fix.FormContainer, func(w *fix.World, id, x []byte) ([]byte, error) {
				return writeChain(w).EncryptWithClientID(id, x, setting(kind, false, false))
			}},
			Protector{"writeChain/searchable/" + kind, kind, fix.FormSearchWrapped, func(w *fix.World, id, x []byte) ([]byte, error) {
				return writeChain(w).EncryptWithClientID(id, x, setting(kind, true, false))
			}},
			Protector{"SearchableEncryptor/" + kind, kind, fix.FormSearchWrapped, func(w *fix.World, id, x []byte) ([]byte, error) {
				se, _ := hmac.NewSearchableEncryptor(w.KS, w.Reg, w.Reg)
				return se.EncryptWithClientID(id, x, setting(kind, true, false))
			}},
		)
	}
	ps = append(ps,
		Protector{"writeChain/config-default", fix.KindBlock, fix.FormContainer, func(w *fix.World, id, x []byte) ([]byte, error) {
			return writeChain(w).EncryptWithClientID(id, x, yamlSetting(""))
		}},
		Protector{"writeChain/config-acrastruct", fix.KindStruct, fix.FormContainer, func(w *fix.World, id, x []byte) ([]byte, error) {
			return writeChain(w).EncryptWithClientID(id, x, yamlSetting("        crypto_envelope: acrastruct\n"))
		}},
		Protector{"writeChain/config-searchable", fix.KindBlock, fix.FormSearchWrapped, func(w *fix.World, id, x []byte) ([]byte, error) {
			return writeChain(w).EncryptWithClientID(id, x, yamlSetting("        searchable: true\n"))
		}},
		Protector{"writeChain/config-no-reencryption", fix.KindBlock, fix.FormContainer, func(w *fix.World, id, x []byte) ([]byte, error) {
			return writeChain(w).EncryptWithClientID(id, x, yamlSetting("        reencrypting_to_acrablocks: false\n"))
		}},
	)
	ps = append(ps,
		Protector{"Translator.Encrypt", fix.KindStruct, fix.FormContainer, func(w *fix.World, id, x []byte) ([]byte, error) {
			return w.Svc.Encrypt(fix.Ctx(id), x, id, nil)
		}},
		Protector{"Translator.EncryptSym", fix.KindBlock, fix.FormContainer, func(w *fix.World, id, x []byte) ([]byte, error) {
			return w.Svc.EncryptSym(fix.Ctx(id), x, id, nil)
		}},
		Protector{"Translator.EncryptSearchable", fix.KindStruct, fix.FormSearchWrapped, func(w *fix.World, id, x []byte) ([]byte, error) {
			r, err := w.Svc.EncryptSearchable(fix.Ctx(id), x, id, nil)
			if err != nil {
				return nil, err
			}
			return append(append([]byte(nil), r.Hash...), r.EncryptedData...), nil
		}},
		Protector{"Translator.EncryptSymSearchable", fix.KindBlock, fix.FormSearchWrapped, func(w *fix.World, id, x []byte) ([]byte, error) {
			r, err := w.Svc.EncryptSymSearchable(fix.Ctx(id), x, id, nil)
			if err != nil {
				return nil, err
			}
			return append(append([]byte(nil), r.Hash...), r.EncryptedData...), nil
		}},
		// re-encryption of an application-side AcraStruct into an AcraBlock on write
		Protector{"ReEncrypt/struct->block", fix.KindBlock, fix.FormContainer, func(w *fix.World, id, x []byte) ([]byte, error) {
			as, err := w.Protect(id, fix.KindStruct, fix.FormContainer, x, -1)
			if err != nil {
				return nil, err
			}
			return crypto.NewReEncryptHandler(w.KS).EncryptWithClientID(id, as, setting(fix.KindBlock, false, true))
		}},
	)
	return ps
}

var allProtectors = protectors()

func protectorNames() []string {
	n := make([]string, len(allProtectors))
	for i, p := range allProtectors {
		n[i] = p.Name
	}
	return n
}

func protectorByName(name string) *Protector {
	for i := range allProtectors {
		if allProtectors[i].Name == name {
			return &allProtectors[i]
		}
	}
	return nil
}

// ---------------------------------------------------------------------------------------------
// plaintext generator: G-bytes plus embedded envelopes

// Piece describes a chunk of generated bytes: raw bytes or an envelope made at run time.
type Piece struct {
	Raw gen.Hex `json:"raw,omitempty"`
	// Env != "" : an envelope "<who>/<kind>/<form>" of Plain, optionally damaged at byte Damage-1.
	Env    string  `json:"env,omitempty"`
	Plain  gen.Hex `json:"plain,omitempty"`
	Damage int     `json:"damage,omitempty"`
	// Gen > 0: the envelope is made under alice's key generation Gen-1 (0 = the current keys): a value the
	// application protected before a key rotation.
	Gen int `json:"gen,omitempty"`
}

func genPiece(t *rapid.T, label string, maxLen int) Piece {
	if rapid.IntRange(0, 4).Draw(t, label+".isenv") == 0 {
		who := rapid.SampledFrom([]string{"alice", "bobby"}).Draw(t, label+".who")
		kind := rapid.SampledFrom(fix.Kinds).Draw(t, label+".kind")
		form := rapid.SampledFrom(fix.Forms).Draw(t, label+".form")
		p := Piece{Env: who + "/" + kind + "/" + form, Plain: gen.NonEmpty(t, label+".envplain", 64)}
		if rapid.IntRange(0, 3).Draw(t, label+".dmg") == 0 {
			p.Damage = 1 + rapid.IntRange(0, 400).Draw(t, label+".dmgpos")
		}
		return p
	}
	return Piece{Raw: gen.Bytes(t, label, maxLen)}
}

// genAppSide draws the plaintext class "value the application protected itself before it reached Acra" (AcraWriter /
// AcraTranslator on the application side): ONE whole envelope - bare AcraStruct / AcraBlock or serialized container -
// spanning the entire input, of the owner (any of its key generations) or of another client, over an inner plaintext
// of any content class, rarely damaged.
func genAppSide(t *rapid.T, label string) Piece {
	who := rapid.SampledFrom([]string{"alice", "alice", "alice", "bobby"}).Draw(t, label+".who")
	kind := rapid.SampledFrom(fix.Kinds).Draw(t, label+".kind")
	form := rapid.SampledFrom([]string{fix.FormRaw, fix.FormContainer}).Draw(t, label+".form")
	p := Piece{Env: who + "/" + kind + "/" + form, Plain: gen.NonEmpty(t, label+".inner", 65536)}
	if who == "alice" {
		p.Gen = rapid.IntRange(0, 3).Draw(t, label+".gen")
	}
	if rapid.IntRange(0, 7).Draw(t, label+".dmg") == 0 {
		p.Damage = 1 + rapid.IntRange(0, 400).Draw(t, label+".dmgpos")
	}
	return p
}

// render materialises pieces; decryptable reports whether some piece is an intact envelope that
// alice can decrypt (then "nothing decryptable around" does not hold by construction).
func render(w *fix.World, ps []Piece) (out []byte, aliceDecryptable bool, err error) {
	for _, p := range ps {
		if p.Env == "" {
			out = append(out, p.Raw...)
			continue
		}
		var who, kind, form string
		parts := bytes.Split([]byte(p.Env), []byte("/"))
		who, kind, form = string(parts[0]), string(parts[1]), string(parts[2])
		v, perr := w.Protect([]byte(who), kind, form, p.Plain, p.Gen-1)
		if perr != nil {
			return nil, false, perr
		}
		if p.Damage > 0 {
			v[(p.Damage-1)%len(v)] ^= 0x40
		} else if who == "alice" {
			aliceDecryptable = true
		}
		out = append(out, v...)
	}
	return out, aliceDecryptable, nil
}

// ---------------------------------------------------------------------------------------------
// TestRoundTrip: protect through one entry point, reveal through every compatible one

type RTCase struct {
	Protector string  `json:"protector"`
	Plain     []Piece `json:"plain"`
}

func containsEnvelopeStart(x []byte) bool {
	return bytes.Contains(x, []byte(`""""`)) || bytes.Contains(x, []byte(`%%%`))
}

func CheckRoundTrip(c RTCase) (vs hx.Vs, nontrivial bool, classes []string) {
	w := fix.TheWorld()
	p := protectorByName(c.Protector)
	if p == nil {
		vs.Add("harness:protector", "unknown protector %q", c.Protector)
		return
	}
	x, _, err := render(w, c.Plain)
	if err != nil {
		vs.Add("harness:render", "%v", err)
		return
	}
	// does the plaintext itself hold (at any offset) an envelope alice can decrypt?
	nestedAlice := holdsOwnEnvelope(w, x)
	classes = append(classes, "protector:"+p.Name)
	var v []byte
	var perr error
	if hx.Guard(&vs, "protect:"+p.Name, func() { v, perr = p.F(w, w.Alice, append([]byte(nil), x...)) }) {
		return
	}
	if len(x) == 0 {
		classes = append(classes, "plain:empty")
		// the crypto library rejects empty messages: an error is fine, so is storing '' as ''
		if perr == nil && len(v) != 0 {
			// something was produced: it must reveal to the empty string
		} else {
			return
		}
	}
	// pass-through law: input that already is a protected value is not wrapped again
	// "already a protected value" = ONE envelope (container or bare AcraStruct/AcraBlock) spanning the whole input;
	// an envelope followed by other bytes is ordinary data (its tail would otherwise be stored in clear)
	// wholeEnvelope: the kind of the ONE envelope that spans all of b ("" if b is not exactly one envelope)
	wholeEnvelope := func(b []byte) string {
		if _, _, wf := containerAt(w, b); wf && le64(b[3:11]) == uint64(len(b)) {
			if b[11] == crypto.AcraStructEnvelopeID && handlerOf(fix.KindStruct).MatchDataSignature(b[12:]) {
				return fix.KindStruct // a whole container whose content has the envelope's signature
			}
			if b[11] == crypto.AcraBlockEnvelopeID && le64(b[16:24])+4 == uint64(len(b)-12) && handlerOf(fix.KindBlock).MatchDataSignature(b[12:]) {
				return fix.KindBlock
			}
			return ""
		}
		if handlerOf(fix.KindStruct).MatchDataSignature(b) {
			return fix.KindStruct // AcraStruct validation is exact-length
		}
		if len(b) >= 18 && bytes.HasPrefix(b, []byte(`""""`)) && le64(b[4:12])+4 == uint64(len(b)) && handlerOf(fix.KindBlock).MatchDataSignature(b) {
			return fix.KindBlock
		}
		return ""
	}
	inKind := wholeEnvelope(x)
	already := inKind != ""
	if already {
		classes = append(classes, "plain:is-envelope")
		if perr != nil {
			// a searchable encryptor has to decrypt the value to index it: an envelope it cannot decrypt is refused
			if p.Form == fix.FormSearchWrapped || p.Form == fix.FormSearchRaw {
				classes = append(classes, "plain:is-foreign-envelope-refused")
				return vs, true, classes
			}
			// so has a re-encrypting column: an AcraStruct made for somebody else cannot be turned into an AcraBlock
			// of the column's owner (the statement is then forwarded as it came - still an envelope)
			ownPiece := false
			for _, pc := range c.Plain {
				ownPiece = ownPiece || (strings.HasPrefix(pc.Env, "alice/") && pc.Damage == 0) // an intact envelope of the owner must be re-encrypted
			}
			if p.Name == "writeChain/config-default" && inKind == fix.KindStruct && !ownPiece {
				classes = append(classes, "plain:is-foreign-envelope-refused")
				return vs, true, classes
			}
			vs.Add("protect-error:"+p.Name, "%s failed on an already protected value: %v", p.Name, perr)
			return
		}
		okPass := bytes.Equal(v, x) || (len(v) == len(x)+33 && bytes.Equal(v[33:], x))
		// a column with reencrypting_to_acrablocks (the loader's default) turns an application-side AcraStruct of
		// its owner into an AcraBlock: one whole AcraBlock (behind the search hash of a searchable column) is the
		// designed outcome, not a second wrapping
		if !okPass && inKind == fix.KindStruct && (p.Name == "writeChain/config-default" || p.Name == "writeChain/config-searchable") {
			body := v
			if p.Form == fix.FormSearchWrapped && len(v) > 33 {
				body = v[33:]
			}
			okPass = wholeEnvelope(body) == fix.KindBlock
			if okPass {
				classes = append(classes, "plain:acrastruct-reencrypted-to-acrablock")
			}
		}
		// the library calls are the wrapping primitive itself (no pass-through law); ReEncrypt/struct->block wraps x first
		lowLevel := strings.HasPrefix(p.Name, "lib/") || p.Name == "ReEncrypt/struct->block"
		if !okPass && !lowLevel {
			vs.Add("double-wrap:"+p.Name, "%s wrapped a value that already is a protected value (in %d bytes, out %d bytes)", p.Name, len(x), len(v))
		}
		if okPass && !lowLevel {
			// what it reveals to is the inner plaintext, by design
			classes = append(classes, revealAppSide(w, &vs, c, p, x, v, wholeEnvelope)...)
		}
		return vs, true, classes
	}
	if perr != nil {
		vs.Add("protect-error:"+p.Name, "%s failed for a non-empty plaintext of %d bytes: %v", p.Name, len(x), perr)
		return
	}
	legacyNested := nestedAlice && (p.Form == fix.FormRaw || p.Form == fix.FormSearchRaw)
	if legacyNested {
		classes = append(classes, "plain:nested-own-envelope/legacy-form")
	}
	nontrivial = len(x) >= 12 || containsEnvelopeStart(x)
	if containsEnvelopeStart(x) {
		classes = append(classes, "plain:has-tag-run")
	}
	if len(x) >= 4096 {
		classes = append(classes, "plain:long")
	}
	if bytes.Contains(x, []byte(x)) && len(c.Plain) > 1 {
		classes = append(classes, "plain:multi-piece")
	}
	if bytes.Equal(v, x) {
		vs.Add("not-protected:"+p.Name, "%s returned the plaintext unchanged (%d bytes)", p.Name, len(x))
		return
	}
	for _, r := range w.Reveals(w.Alice, p.Kind) {
		if !r.Accepts(p.Kind, p.Form) {
			continue
		}
		var out []byte
		var rerr error
		if hx.Guard(&vs, r.Name, func() { out, rerr = r.F(append([]byte(nil), v...)) }) {
			continue
		}
		if legacyNested && r.Column && (rerr != nil || !bytes.Equal(out, x)) {
			// legacy (raw) envelopes are searched in two passes, AcraStructs then AcraBlocks over the result
			vs.Add("nested-envelope-in-legacy-value:"+r.Name, "%s -> %s: a raw (legacy-form) value whose plaintext itself holds an envelope of the owner is not returned as stored plaintext (%d bytes out, %d expected)", p.Name, r.Name, len(out), len(x))
			continue
		}
		if rerr != nil {
			vs.Add("reveal-error:"+r.Name, "%s -> %s failed for the owner: %v (plaintext %d bytes)", p.Name, r.Name, rerr, len(x))
			continue
		}
		if !bytes.Equal(out, x) {
			vs.Add("roundtrip:"+r.Name, "%s -> %s returned %d bytes %.48x, want the %d-byte plaintext %.48x", p.Name, r.Name, len(out), out, len(x), x)
		}
	}
	return
}

// holdsOwnEnvelope: some offset of b starts an envelope (container or bare) alice can decrypt.
func holdsOwnEnvelope(w *fix.World, b []byte) bool {
	for i := range b {
		if _, _, ok := rawAt(w, b[i:]); ok {
			return true
		}
		if _, pl, _ := containerAt(w, b[i:]); pl != nil {
			return true
		}
	}
	return false
}

// revealAppSide is the reveal half of the round trip for a value that was protected BEFORE it reached the protect entry
// point (x is one whole envelope: the application used AcraWriter / AcraTranslator itself). The entry point stored v:
// that very envelope, the envelope behind the search hash of a searchable column, or - re-encrypting column - one
// AcraBlock made from it. "Protected through Acra ... comes back byte-for-byte identical when the same client reveals
// it": if the owner can open x at all (decided with the library calls alone), every reveal entry point that is meant for
// the stored form gives the owner the envelope's inner plaintext - not the envelope, not hash || envelope, not an error.
func revealAppSide(w *fix.World, vs *hx.Vs, c RTCase, p *Protector, x, v []byte, wholeEnvelope func([]byte) string) (classes []string) {
	var inner []byte
	owned := false
	if n, pl, _ := containerAt(w, x); pl != nil && n == len(x) {
		inner, owned = pl, true
	} else if n, pl, ok := rawAt(w, x); ok && n == len(x) {
		inner, owned = pl, true
	}
	if !owned {
		// another client's envelope, or a damaged one that still has the signature: stored as it came, nothing the
		// owner of the column could reveal
		return []string{"app-protected:not-the-owners"}
	}
	searchProtector := p.Form == fix.FormSearchWrapped || p.Form == fix.FormSearchRaw
	body, search := v, false
	if searchProtector && !bytes.Equal(v, x) && len(v) > 33 {
		body, search = v[33:], true
	}
	outKind := wholeEnvelope(body)
	if outKind == "" {
		vs.Add("harness:app-protected-stored-form", "%s: stored value of %d bytes accepted as pass-through is not one envelope", p.Name, len(v))
		return
	}
	outForm := fix.FormRaw
	if bytes.HasPrefix(body, []byte("%%%")) {
		outForm = fix.FormContainer
	}
	if search {
		if outForm == fix.FormRaw {
			outForm = fix.FormSearchRaw
		} else {
			outForm = fix.FormSearchWrapped
		}
	}
	classes = append(classes, "app-protected:owner-reveals", "app-protected:stored-as/"+outKind+"/"+outForm)
	if searchProtector {
		classes = append(classes, "app-protected:searchable-entry")
	}
	for _, pc := range c.Plain {
		if pc.Gen == 1 || pc.Gen == 2 {
			classes = append(classes, "app-protected:older-key-generation")
		}
	}
	legacyNested := (outForm == fix.FormRaw || outForm == fix.FormSearchRaw) && holdsOwnEnvelope(w, inner)
	hashNote := ""
	if search {
		hashNote = "; stored search hash is NOT the hash of the inner plaintext"
		if bytes.Equal(v[:33], hmac.GenerateHMAC(w.HmacKey(w.Alice), append([]byte(nil), inner...))) {
			hashNote = "; stored search hash is the hash of the inner plaintext"
		}
	}
	// one violation per case, named after the protect entry point that stored the value (the reveal entry points are
	// the ones the ordinary round trip exercises; what is new here is what the protect side made of an envelope)
	var failed []string
	for _, r := range w.Reveals(w.Alice, outKind) {
		if !r.Accepts(outKind, outForm) {
			continue
		}
		var out []byte
		var rerr error
		if hx.Guard(vs, r.Name, func() { out, rerr = r.F(append([]byte(nil), v...)) }) {
			continue
		}
		if legacyNested && r.Column && (rerr != nil || !bytes.Equal(out, inner)) {
			vs.Add("nested-envelope-in-legacy-value:"+r.Name, "%s -> %s: a raw (legacy-form) value whose plaintext itself holds an envelope of the owner is not returned as stored plaintext (%d bytes out, %d expected)", p.Name, r.Name, len(out), len(inner))
			continue
		}
		switch {
		case rerr != nil:
			failed = append(failed, fmt.Sprintf("%s: error %v", r.Name, rerr))
		case bytes.Equal(out, inner):
		case bytes.Equal(out, v):
			failed = append(failed, fmt.Sprintf("%s: the stored value unchanged (%d bytes)", r.Name, len(out)))
		case bytes.Equal(out, x):
			failed = append(failed, fmt.Sprintf("%s: the envelope (%d bytes)", r.Name, len(out)))
		default:
			failed = append(failed, fmt.Sprintf("%s: %d other bytes %.32x", r.Name, len(out), out))
		}
	}
	if len(failed) > 0 {
		vs.Add("app-protected-not-revealed:"+p.Name, "%s stored an application-side %s of the owner (%d bytes) as %s/%s (%d bytes)%s; the owner wants the %d bytes of inner plaintext %.32x back and gets - %s", p.Name, c.Plain[0].Env, len(x), outKind, outForm, len(v), hashNote, len(inner), inner, strings.Join(failed, " | "))
	}
	return classes
}

func TestRoundTrip(t *testing.T) {
	R.Rule("TestRoundTrip", "plaintext = 1..3 pieces (G-bytes classes, or whole/damaged envelopes of alice/bobby) - or, one case in six, ONE whole envelope made on the application side (bare AcraStruct / AcraBlock or serialized container, of alice under any of her key generations or of bobby, inner plaintext from all G-bytes classes up to 64 KiB, rarely damaged) - protected for alice through one of the protect entry points (library, registry handler, write chain plain / searchable / configured from YAML, searchable encryptor, translator x4, re-encryptor) and revealed through every compatible reveal entry point; oracle: byte equality; inputs that already are protected values are passed through (stored as they are, behind the search hash on searchable entry points, or re-encrypted into one AcraBlock) AND, when the owner can open the envelope, the stored value is revealed by every reveal entry point of its stored form (library, handlers, hash-verifying processors, translator, column and search-column chains) to the envelope's inner plaintext; non-trivial = plaintext >= 12 bytes or containing an envelope tag run or being an envelope")
	hx.Checks(700, 8000)
	names := protectorNames()
	rapid.Check(t, func(rt *rapid.T) {
		c := RTCase{Protector: rapid.SampledFrom(names).Draw(rt, "protector")}
		if rapid.IntRange(0, 5).Draw(rt, "appside") == 0 {
			// the value was protected on the application side: one whole envelope is what the entry point receives
			c.Plain = []Piece{genAppSide(rt, "app")}
		} else {
			n := rapid.IntRange(1, 3).Draw(rt, "pieces")
			for i := 0; i < n; i++ {
				c.Plain = append(c.Plain, genPiece(rt, fmt.Sprintf("p%d", i), 65536))
			}
		}
		vs, nt, cl := CheckRoundTrip(c)
		R.Seen("TestRoundTrip", c, nt, cl...)
		R.Report(rt, "TestRoundTrip", c, vs)
	})
}

// ---------------------------------------------------------------------------------------------
// TestFraming: prefix || protected || suffix inside one column value

type FrCase struct {
	Kind   string  `json:"kind"`
	Form   string  `json:"form"`
	Gen    int     `json:"gen"`
	Plain  gen.Hex `json:"plain"`
	Prefix []Piece `json:"prefix"`
	Suffix []Piece `json:"suffix"`
	// Search: use the searchable column chain (hash verification) instead of the plain one.
	Search bool `json:"search"`
}

// refScan is the reference scanner, written from the documented behaviour of transparent
// decryption: a column that holds at least one well-formed serialized container is processed in
// "container mode" (every container alice can decrypt is replaced by its plaintext, everything else is
// kept); a column without any container is processed in "legacy mode" (every raw AcraStruct / AcraBlock
// alice can decrypt is replaced). Obviously-correct O(n^2): try every offset, exact lengths from headers.
func refScan(w *fix.World, col []byte) []byte {
	containerMode := false
	for i := 0; i+12 < len(col); i++ {
		if _, _, wellFormed := containerAt(w, col[i:]); wellFormed {
			containerMode = true
			break
		}
	}
	var out []byte
	i := 0
	for i < len(col) {
		var n int
		var plain []byte
		var ok bool
		if containerMode {
			n, plain, _ = containerAt(w, col[i:])
			ok = plain != nil
		} else {
			n, plain, ok = rawAt(w, col[i:])
		}
		if ok {
			out = append(out, plain...)
			i += n
			continue
		}
		out = append(out, col[i])
		i++
	}
	return out
}

// refSearch is the reference for a searchable column: a value that starts with a search hash (function
// number 0x7f + 32 bytes) followed by bytes holding an envelope is hash || protected value: it is revealed
// only if the hash matches what was revealed, otherwise delivered unchanged. Anything else is an
// ordinary column.
func refSearch(w *fix.World, col []byte) []byte {
	// a searchable value is hash || envelope: the envelope (container, or a bare AcraStruct / AcraBlock) starts right
	// behind the 33 bytes of the hash
	startsWithTag := func(b []byte) bool { return bytes.HasPrefix(b, []byte("%%%")) || bytes.HasPrefix(b, []byte(`""""`)) }
	if len(col) > 33 && col[0] == 0x7f && startsWithTag(col[33:]) && holdsEnvelope(w, col[33:]) {
		rest := refScan(w, col[33:])
		if bytes.Equal(rest, col[33:]) {
			return col // nothing revealed
		}
		if bytes.Equal(hmac.GenerateHMAC(w.HmacKey(w.Alice), rest), col[:33]) {
			return rest
		}
		return col
	}
	return refScan(w, col)
}

// holdsEnvelope: some offset of b starts a well-formed container or raw envelope (of anybody).
func holdsEnvelope(w *fix.World, b []byte) bool {
	for i := range b {
		if _, _, wf := containerAt(w, b[i:]); wf {
			return true
		}
		if handlerOf(fix.KindStruct).MatchDataSignature(b[i:]) {
			return true
		}
		if bytes.HasPrefix(b[i:], []byte(`""""`)) && handlerOf(fix.KindBlock).MatchDataSignature(b[i:]) {
			return true
		}
		if bytes.HasPrefix(b[i:], []byte(`""""""""`)) && len(b[i:]) >= 145 {
			dl := le64(b[i+137 : i+145])
			if dl <= uint64(len(b[i:])-145) && handlerOf(fix.KindStruct).MatchDataSignature(b[i:uint64(i)+145+dl]) {
				return true
			}
		}
	}
	return false
}

func le64(x []byte) uint64 {
	var v uint64
	for i := 7; i >= 0; i-- {
		v = v<<8 | uint64(x[i])
	}
	return v
}

func tryLib(w *fix.World, kind string, env []byte) ([]byte, bool) {
	for _, r := range w.Reveals(w.Alice, kind) {
		if r.Name == "acrastruct.DecryptRotatedAcrastruct" || r.Name == "acrablock.Decrypt" {
			out, err := r.F(append([]byte(nil), env...))
			if err == nil && out == nil {
				out = []byte{}
			}
			return out, err == nil
		}
	}
	return nil, false
}

// containerAt: is there a well-formed serialized container at the start of b (tag, length within the
// buffer, known envelope id)? plain != nil when alice can decrypt it.
func containerAt(w *fix.World, b []byte) (n int, plain []byte, wellFormed bool) {
	if len(b) <= 12 || !bytes.HasPrefix(b, []byte("%%%")) {
		return 0, nil, false
	}
	ln := le64(b[3:11])
	if ln <= 12 || ln > uint64(len(b)) {
		return 0, nil, false
	}
	inner := b[12:ln]
	switch b[11] {
	case crypto.AcraStructEnvelopeID:
		p, ok := tryLib(w, fix.KindStruct, inner)
		if ok {
			return int(ln), p, true
		}
		return 0, nil, true
	case crypto.AcraBlockEnvelopeID:
		p, ok := tryLib(w, fix.KindBlock, inner)
		if ok {
			return int(ln), p, true
		}
		return 0, nil, true
	}
	return 0, nil, false
}

// rawAt recognises a raw AcraStruct / AcraBlock at the start of b that alice can decrypt.
func rawAt(w *fix.World, b []byte) (int, []byte, bool) {
	if len(b) >= 145 && bytes.HasPrefix(b, []byte(`""""""""`)) {
		dl := le64(b[137:145])
		if dl <= uint64(len(b)-145) {
			if p, ok := tryLib(w, fix.KindStruct, b[:145+dl]); ok {
				return int(145 + dl), p, true
			}
		}
	}
	if len(b) >= 18 && bytes.HasPrefix(b, []byte(`""""`)) {
		rl := le64(b[4:12])
		if rl >= 14 && rl <= uint64(len(b)-4) {
			if p, ok := tryLib(w, fix.KindBlock, b[:4+rl]); ok {
				return int(4 + rl), p, true
			}
		}
	}
	return 0, nil, false
}

func CheckFraming(c FrCase) (vs hx.Vs, nontrivial bool, classes []string) {
	w := fix.TheWorld()
	pre, preDec, err := render(w, c.Prefix)
	if err != nil {
		vs.Add("harness:render", "%v", err)
		return
	}
	suf, sufDec, err := render(w, c.Suffix)
	if err != nil {
		vs.Add("harness:render", "%v", err)
		return
	}
	v, err := w.Protect(w.Alice, c.Kind, c.Form, c.Plain, c.Gen)
	if err != nil {
		vs.Add("harness:protect", "%v", err)
		return
	}
	isSearchForm := c.Form == fix.FormSearchRaw || c.Form == fix.FormSearchWrapped
	col := append(append(append([]byte(nil), pre...), v...), suf...)
	classes = append(classes, "kind:"+c.Kind, "form:"+c.Form)
	if len(pre) > 0 {
		classes = append(classes, "prefix")
		if pre[len(pre)-1] == '"' || pre[len(pre)-1] == '%' {
			classes = append(classes, "prefix:tag-adjacent")
		}
	}
	if len(suf) > 0 {
		classes = append(classes, "suffix")
	}
	if len(suf) >= 4096 {
		classes = append(classes, "suffix:long")
	}
	if preDec || sufDec {
		classes = append(classes, "neighbour-envelope")
	}
	nontrivial = len(pre) > 0 || len(suf) > 0
	chainName := "column"
	run := func(in []byte) ([]byte, error) { return fix.NewChain(w.KS, nil).OnColumn(w.Alice, in) }
	if c.Search {
		chainName = "search-column"
		run = func(in []byte) ([]byte, error) { return fix.NewSearchChain(w.KS, nil).OnColumn(w.Alice, in) }
		classes = append(classes, "search-chain")
	}
	var out []byte
	var rerr error
	if hx.Guard(&vs, chainName, func() { out, rerr = run(append([]byte(nil), col...)) }) {
		return
	}
	if rerr != nil {
		vs.Add("column-error:"+chainName, "chain failed on prefix(%d)||%s/%s(%d)||suffix(%d): %v", len(pre), c.Kind, c.Form, len(v), len(suf), rerr)
		return
	}
	var want []byte
	if c.Search {
		want = refSearch(w, col)
	} else {
		want = refScan(w, col)
	}
	if want != nil && !bytes.Equal(out, want) {
		sig := "framing:" + chainName
		d := 0
		for d < len(out) && d < len(want) && out[d] == want[d] {
			d++
		}
		vs.Add(sig, "%s delivered %d bytes, reference scanner %d bytes, first difference at %d (prefix %d bytes ending %.8x, %s/%s %d bytes, suffix %d bytes)", chainName, len(out), len(want), d, len(pre), tail(pre, 4), c.Kind, c.Form, len(v), len(suf))
	}
	// with nothing decryptable around, the owner sees prefix || plaintext || suffix
	if !preDec && !sufDec && !isSearchForm && !c.Search {
		exp := append(append(append([]byte(nil), pre...), c.Plain...), suf...)
		if !bytes.Equal(out, exp) && bytes.Equal(want, exp) {
			// already reported as framing difference
		} else if !bytes.Equal(out, exp) && !bytes.Equal(want, exp) {
			// the reference scanner found something decryptable by coincidence (e.g. plaintext of an
			// embedded damaged envelope): not an error of the chain
			classes = append(classes, "coincidence")
		}
	}
	return
}

func tail(b []byte, n int) []byte {
	if len(b) <= n {
		return b
	}
	return b[len(b)-n:]
}

func genPieces(t *rapid.T, label string, maxLen int) []Piece {
	n := rapid.IntRange(0, 2).Draw(t, label+".n")
	var ps []Piece
	for i := 0; i < n; i++ {
		ps = append(ps, genPiece(t, fmt.Sprintf("%s%d", label, i), maxLen))
	}
	return ps
}

func TestFraming(t *testing.T) {
	R.Rule("TestFraming", "column value = prefix || protected value of alice (kind x form x key generation) || suffix, prefix/suffix from G-bytes (tag runs, long, structural sizes) and embedded whole/damaged envelopes of alice/bobby, up to 70 KiB; oracle: the column chain's output equals an independent reference scanner (try every offset, replace what decrypts for alice); non-trivial = non-empty prefix or suffix")
	hx.Checks(700, 8000)
	rapid.Check(t, func(rt *rapid.T) {
		c := FrCase{
			Kind:   rapid.SampledFrom(fix.Kinds).Draw(rt, "kind"),
			Form:   rapid.SampledFrom(fix.Forms).Draw(rt, "form"),
			Gen:    rapid.IntRange(0, 2).Draw(rt, "gen"),
			Plain:  gen.NonEmpty(rt, "plain", 2048),
			Prefix: genPieces(rt, "pre", 4096),
			Suffix: genPieces(rt, "suf", 1<<17),
			Search: rapid.IntRange(0, 3).Draw(rt, "search") == 0,
		}
		// aim at tag-adjacent prefixes often
		if rapid.IntRange(0, 3).Draw(rt, "tagadj") == 0 {
			sym := rapid.SampledFrom([]byte{'"', '%'}).Draw(rt, "sym")
			c.Prefix = append(c.Prefix, Piece{Raw: bytes.Repeat([]byte{sym}, rapid.IntRange(1, 9).Draw(rt, "nsym"))})
		}
		vs, nt, cl := CheckFraming(c)
		R.Seen("TestFraming", c, nt, cl...)
		R.Report(rt, "TestFraming", c, vs)
	})
}

func TestReplay(t *testing.T) {
	R.Replay(t, map[string]hx.ReplayHandler{
		"TestRoundTrip": func(raw json.RawMessage) hx.Vs {
			var c RTCase
			if err := json.Unmarshal(raw, &c); err != nil {
				return hx.Vs{{Sig: "harness:decode", Msg: err.Error()}}
			}
			vs, _, _ := CheckRoundTrip(c)
			return vs
		},
		"TestFraming": func(raw json.RawMessage) hx.Vs {
			var c FrCase
			if err := json.Unmarshal(raw, &c); err != nil {
				return hx.Vs{{Sig: "harness:decode", Msg: err.Error()}}
			}
			vs, _, _ := CheckFraming(c)
			return vs
		},
		"TestKeyIDCollision": func(raw json.RawMessage) hx.Vs {
			var c KeyIDCase
			if err := json.Unmarshal(raw, &c); err != nil {
				return hx.Vs{{Sig: "harness:decode", Msg: err.Error()}}
			}
			return CheckKeyID(c)
		},
	})
}
