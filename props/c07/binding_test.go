package c07

import (
	"flag"
	"fmt"
	"strings"
	"testing"

	"pgregory.net/rapid"

	"verif/internal/hx"
	"verif/internal/kshist"
)

// BindCase: a keystore with two owners; every stored object is relocated over every other one.
type BindCase struct {
	Format string `json:"format"` // v1 | v2/mem | v2/dir
	A      string `json:"a"`
	B      string `json:"b"`
	RotA   int    `json:"rot_a"`
	RotB   int    `json:"rot_b"`
	RotG   int    `json:"rot_global"`
	Mode   string `json:"mode"` // copy | rename | swap
}

const idAlphabet = "abcdefghijklmnopqrstuvwxyzABCDEFGHIJKLMNOPQRSTUVWXYZ0123456789-_ "

func genID(t *rapid.T, label string) string {
	n := rapid.SampledFrom([]int{5, 5, 6, 8, 12, 20, 64, 200}).Draw(t, label+".len")
	b := make([]byte, n)
	for i := range b {
		b[i] = idAlphabet[rapid.IntRange(0, len(idAlphabet)-1).Draw(t, fmt.Sprintf("%s.c%d", label, i%8))]
	}
	return string(b)
}

// genPair draws two distinct valid identities, often near misses of one another.
func genPair(t *rapid.T) (string, string) {
	a := genID(t, "a")
	switch rapid.SampledFrom([]string{"independent", "prefix", "case", "suffix-kind", "lastchar"}).Draw(t, "pairkind") {
	case "prefix":
		return a, a + rapid.SampledFrom([]string{"_", "x", "_storage", "_hmac", "-1", " "}).Draw(t, "ext")
	case "case":
		b := strings.ToUpper(a)
		if b == a {
			b = strings.ToLower(a)
		}
		if b != a {
			return a, b
		}
	case "suffix-kind":
		return a, a + rapid.SampledFrom([]string{"_storage", "_storage_sym", "_hmac", "_storage.pub"[:8], "_sym"}).Draw(t, "kindext")
	case "lastchar":
		b := []byte(a)
		c := b[len(b)-1]
		b[len(b)-1] = idAlphabet[(strings.IndexByte(idAlphabet, c)+1)%len(idAlphabet)]
		return a, string(b)
	}
	b := genID(t, "b")
	if b == a {
		b = a[:len(a)-1] + "0"
		if b == a {
			b = a[:len(a)-1] + "1"
		}
	}
	return a, b
}

func genBindCase(t *rapid.T) BindCase {
	a, b := genPair(t)
	return BindCase{
		Format: rapid.SampledFrom([]string{"v1", "v1", "v2/mem", "v2/dir"}).Draw(t, "format"),
		A:      a, B: b,
		RotA: rapid.IntRange(0, 2).Draw(t, "rotA"),
		RotB: rapid.IntRange(0, 1).Draw(t, "rotB"),
		RotG: rapid.IntRange(0, 1).Draw(t, "rotG"),
		Mode: rapid.SampledFrom([]string{"copy", "copy", "rename", "swap"}).Draw(t, "mode"),
	}
}

// pairClass names the relation of two different keys.
func pairClass(s, d kshist.K) string {
	owner := "other-owner"
	if s.ID == d.ID {
		owner = "same-owner"
		if s.ID == "" {
			owner = "global"
		}
	} else if s.ID == "" || d.ID == "" {
		owner = "global-vs-client"
	}
	if s.Kind == d.Kind {
		return owner + "/same-purpose"
	}
	return owner + "/other-purpose"
}

type bindInfo struct {
	pairs   int
	classes map[string]int
}

// CheckBinding relocates every stored object over every object of a different key (other owner,
// other purpose, or both) and then reads the target key through the API: every read must fail or
// offer only what the target offered before, never a key of the source.
func CheckBinding(c BindCase) (hx.Vs, *bindInfo) {
	var vs hx.Vs
	info := &bindInfo{classes: map[string]int{}}
	if c.A == c.B {
		vs.Add("harness:ids", "equal ids %q", c.A)
		return vs, info
	}
	st, err := buildStore(c.Format, []string{c.A, c.B}, []int{c.RotA, c.RotB}, c.RotG)
	if err != nil {
		vs.Add("harness:build", "%s: %v", c.Format, errs(err))
		return vs, info
	}
	defer st.close()
	ks := st.fx.KS()
	orig := map[kshist.K]offered{}
	for _, k := range st.keys {
		o := read(ks, k)
		if len(o.Errs) > 0 {
			vs.Add("harness:unreadable", "%s: %s is unreadable before any relocation: %v", c.Format, k, o.Errs)
			return vs, info
		}
		orig[k] = o
	}
	objs := st.objects()
	data := map[string][]byte{}
	for _, o := range objs {
		d, err := st.get(o.Name)
		if err != nil {
			vs.Add("harness:get", "%s: %v", o.Name, errs(err))
			return vs, info
		}
		data[o.Name] = d
	}
	seen := map[string]bool{}
	for _, s := range objs {
		for _, d := range objs {
			if s.K == d.K {
				continue // same owner and purpose: another generation or the other half of the same key
			}
			if d.Hist && s.Hist {
				continue // historical files are sources for every target and targets for current files only
			}
			class := pairClass(s.K, d.K)
			info.pairs++
			info.classes["pair:"+class]++
			// relocate
			var rerr error
			switch c.Mode {
			case "rename":
				rerr = st.rename(s.Name, d.Name)
			case "swap":
				if rerr = st.put(d.Name, data[s.Name]); rerr == nil {
					rerr = st.put(s.Name, data[d.Name])
				}
			default:
				rerr = st.put(d.Name, data[s.Name])
			}
			if rerr != nil {
				vs.Add("harness:relocate", "%s %s -> %s: %v", c.Mode, s.Name, d.Name, errs(rerr))
				return vs, info
			}
			var got offered
			panicked := hx.Guard(&vs, "read-after-relocation/"+c.Format, func() { got = read(ks, d.K) })
			// restore
			e1, e2 := st.put(s.Name, data[s.Name]), st.put(d.Name, data[d.Name])
			if e1 != nil || e2 != nil {
				vs.Add("harness:restore", "%v %v", e1, e2)
				return vs, info
			}
			if panicked {
				return vs, info
			}
			src := orig[s.K]
			dst := orig[d.K]
			leak := ""
			for _, v := range got.Secrets {
				if !dst.hasSecret(v) && (src.hasSecret(v) || src.hasPublic(v)) {
					leak = "a private/symmetric key read"
				}
			}
			for _, v := range got.Publics {
				if !dst.hasPublic(v) && (src.hasSecret(v) || src.hasPublic(v)) {
					leak = "the public key read"
				}
			}
			if len(got.OK) == 0 {
				info.classes["outcome:all-reads-fail"]++
			} else if leak == "" {
				info.classes["outcome:reads-offer-own-keys-only"]++
			}
			if leak == "" {
				continue
			}
			sig := fmt.Sprintf("relocated-key-loads:%s:%s:%s->%s", strings.SplitN(c.Format, "/", 2)[0], class, s.kindPart(), d.kindPart())
			switch {
			case c.Format == "v1" && s.Part == "pub" && d.Part == "pub":
				sig = "v1-public-key-unauthenticated:relocate"
			case c.Format == "v1" && s.K.ID == d.K.ID && s.K.ID != "" && s.Part == "" && d.Part == "":
				sig = fmt.Sprintf("v1-key-not-bound-to-purpose:%s->%s", s.K.Kind, d.K.Kind)
			}
			if seen[sig] {
				continue
			}
			seen[sig] = true
			vs.Add(sig, "%s: stored object of %s (%s) relocated (%s) to the location of %s (%s): %s of %s now returns a key of %s without error (successful reads: %v)",
				c.Format, s, s.Name, c.Mode, d, d.Name, leak, d.K, s.K, got.OK)
		}
	}
	return vs, info
}

func TestBinding(t *testing.T) {
	const name = "TestBinding"
	R.Rule(name, "keystore of either format with two distinct valid client ids (independent or near misses: prefix, case variant, kind-suffix, last char), all six key kinds, 0-2 rotations; EVERY ordered pair of stored objects that belong to different keys (v1: current and historical key files, private and public parts; v2: key ring files) is relocated (copy / rename / swap, generated) and the target key is read through every reader of the API: each read must fail or offer only keys the target offered before, never a key of the source. Non-trivial = at least one pair of objects with different owners or purposes was relocated (always, by construction)")
	hx.Checks(24, 250)
	flag.Set("rapid.shrinktime", "10s") // cases are small; every evaluation builds a keystore
	rapid.Check(t, func(rt *rapid.T) {
		c := genBindCase(rt)
		vs, info := CheckBinding(c)
		cl := []string{"format:" + c.Format, "mode:" + c.Mode}
		for k := range info.classes {
			cl = append(cl, k)
		}
		R.Seen(name, c, info.pairs > 0, cl...)
		R.Report(rt, name, c, vs)
	})
}
