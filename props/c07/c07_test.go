// Package c07: keys at rest are encrypted, bound to their owner, tamper-evident and confined.
package c07

import (
	"bytes"
	"crypto/sha256"
	"encoding/base64"
	"encoding/hex"
	"encoding/json"
	"fmt"
	"os"
	"path/filepath"
	"regexp"
	"sort"
	"strings"
	"sync"
	"testing"

	"github.com/cossacklabs/acra/keystore/filesystem"
	backendapi "github.com/cossacklabs/acra/keystore/v2/keystore/filesystem/backend/api"

	"verif/internal/hx"
	"verif/internal/kshist"
)

var R = hx.New("C07")

func TestMain(m *testing.M) { os.Exit(R.Main(m)) }

// ---------------------------------------------------------------------------------------------
// secrets and the scanner

// secret is one private / symmetric key value learnt through the keystore API.
type secret struct {
	label string // e.g. "storageSym/alice/g1"
	val   []byte
}

type needle struct {
	form string
	pat  []byte
}

// needles are the byte patterns that betray a secret: the whole value raw, in hex (both cases) and in
// base64 (standard, URL, with and without padding), and its "core": the last 24 bytes raw and in hex
// (a key container written without its header, or a prefix of the key replaced, still shows them).
func needles(val []byte) []needle {
	if len(val) < 16 {
		return nil
	}
	h := hex.EncodeToString(val)
	out := []needle{
		{"raw", val},
		{"hex", []byte(h)},
		{"HEX", []byte(strings.ToUpper(h))},
		{"base64", []byte(base64.StdEncoding.EncodeToString(val))},
		{"base64-nopad", []byte(base64.RawStdEncoding.EncodeToString(val))},
		{"base64url", []byte(base64.URLEncoding.EncodeToString(val))},
		{"base64url-nopad", []byte(base64.RawURLEncoding.EncodeToString(val))},
	}
	if len(val) > 24 {
		core := val[len(val)-24:]
		out = append(out, needle{"raw-tail", core}, needle{"hex-tail", []byte(hex.EncodeToString(core))})
	}
	return out
}

// scan looks for every secret in data; returns a description of the first hit.
func scan(data []byte, secrets []secret) (string, bool) {
	if len(data) < 16 {
		return "", false
	}
	for _, s := range secrets {
		for _, n := range needles(s.val) {
			if i := bytes.Index(data, n.pat); i >= 0 {
				return fmt.Sprintf("%s (%d bytes) occurs as %s at offset %d of %d bytes", s.label, len(s.val), n.form, i, len(data)), true
			}
		}
	}
	return "", false
}

// ---------------------------------------------------------------------------------------------
// capturing wrappers

// write is one byte sequence handed to a storage back end.
type write struct {
	call string // WriteFile, Put, ...
	path string
	data []byte
	perm os.FileMode
}

type capture struct {
	mu     sync.Mutex
	writes []write
}

func (c *capture) add(call, path string, data []byte, perm os.FileMode) {
	c.mu.Lock()
	c.writes = append(c.writes, write{call, path, append([]byte(nil), data...), perm})
	c.mu.Unlock()
}

// capStorage wraps a v1 filesystem.Storage and records every byte sequence written through it.
type capStorage struct {
	filesystem.Storage
	cap *capture
}

func (s *capStorage) WriteFile(path string, data []byte, perm os.FileMode) error {
	s.cap.add("WriteFile", path, data, perm)
	return s.Storage.WriteFile(path, data, perm)
}

// capBackend wraps a v2 back end and records every byte sequence written through it.
type capBackend struct {
	backendapi.Backend
	cap *capture
}

func (b *capBackend) Put(path string, data []byte) error {
	b.cap.add("Put", path, data, 0)
	return b.Backend.Put(path, data)
}

// ---------------------------------------------------------------------------------------------
// directory snapshots

type entry struct {
	mode  os.FileMode
	size  int64
	mtime int64
	sum   [32]byte
	link  string
}

// snapshot records every path under root (relative names): type, permission bits, size,
// modification time and, with content set, the content hash (system calls are what a case costs).
func snapshot(root string, content bool) map[string]entry {
	out := map[string]entry{}
	filepath.Walk(root, func(p string, info os.FileInfo, err error) error {
		if err != nil || p == root {
			return nil
		}
		rel := strings.TrimPrefix(p, root+string(os.PathSeparator))
		e := entry{mode: info.Mode()}
		switch {
		case info.Mode()&os.ModeSymlink != 0:
			e.link, _ = os.Readlink(p)
		case info.Mode().IsRegular():
			e.size, e.mtime = info.Size(), info.ModTime().UnixNano()
			if content {
				if b, rerr := os.ReadFile(p); rerr == nil {
					e.sum = sha256.Sum256(b)
				}
			}
		}
		out[rel] = e
		return nil
	})
	return out
}

// diff lists the paths that were created, removed or changed between two snapshots, restricted to
// the paths for which keep returns true.
func diff(before, after map[string]entry, keep func(rel string) bool) []string {
	var out []string
	for p, a := range after {
		if !keep(p) {
			continue
		}
		if b, ok := before[p]; !ok {
			out = append(out, "created "+p)
		} else if a != b {
			out = append(out, "changed "+p)
		}
	}
	for p := range before {
		if _, ok := after[p]; !ok && keep(p) {
			out = append(out, "removed "+p)
		}
	}
	sort.Strings(out)
	return out
}

var tmpName = regexp.MustCompile(`(c07-[a-z0-9]+-|kshist-v[12]-)[0-9]+`)
var timeName = regexp.MustCompile(`[0-9]{4}-[0-9]{2}-[0-9]{2}T[0-9]{2}:[0-9]{2}:[0-9]{2}(\.[0-9]+)?`)

// clean removes per-case scratch names from messages (a replay must reproduce the same message).
func clean(s string) string {
	if td := os.TempDir(); td != "" {
		s = strings.ReplaceAll(s, td, "<tmp>")
	}
	s = timeName.ReplaceAllString(s, "<time>")
	return tmpName.ReplaceAllString(s, "${1}N")
}

func errs(err error) string {
	if err == nil {
		return "<nil>"
	}
	return clean(err.Error())
}

// ---------------------------------------------------------------------------------------------
// replay

func TestReplay(t *testing.T) {
	dec := func(f func(raw json.RawMessage) hx.Vs) hx.ReplayHandler { return f }
	secretsHandler := dec(func(raw json.RawMessage) hx.Vs {
		var c SecretsCase
		if err := json.Unmarshal(raw, &c); err != nil {
			return hx.Vs{{Sig: "harness:decode", Msg: err.Error()}}
		}
		vs, _ := CheckSecrets(c)
		return vs
	})
	h := map[string]hx.ReplayHandler{
		"TestNoClearSecrets": dec(func(raw json.RawMessage) hx.Vs {
			var c SecretsCase
			if err := json.Unmarshal(raw, &c); err != nil {
				return hx.Vs{{Sig: "harness:decode", Msg: err.Error()}}
			}
			vs, _ := CheckSecrets(c)
			return vs
		}),
		"TestBinding": dec(func(raw json.RawMessage) hx.Vs {
			var c BindCase
			if err := json.Unmarshal(raw, &c); err != nil {
				return hx.Vs{{Sig: "harness:decode", Msg: err.Error()}}
			}
			vs, _ := CheckBinding(c)
			return vs
		}),
		"TestTamper": dec(func(raw json.RawMessage) hx.Vs {
			var c TamperCase
			if err := json.Unmarshal(raw, &c); err != nil {
				return hx.Vs{{Sig: "harness:decode", Msg: err.Error()}}
			}
			vs, _ := CheckTamper(c)
			return vs
		}),
		"TestConfinement": dec(func(raw json.RawMessage) hx.Vs {
			var c ConfCase
			if err := json.Unmarshal(raw, &c); err != nil {
				return hx.Vs{{Sig: "harness:decode", Msg: err.Error()}}
			}
			vs, _ := CheckConfinement(c)
			return vs
		}),
	}
	for _, f := range kshist.FixtureNames {
		h[secretsTest(f)] = secretsHandler
	}
	R.Replay(t, h)
}
