package c07

import (
	"fmt"
	"os"
	"path/filepath"
	"sort"
	"strings"

	"github.com/cossacklabs/themis/gothemis/keys"

	"github.com/cossacklabs/acra/keystore"
	v2crypto "github.com/cossacklabs/acra/keystore/v2/keystore/crypto"
	"github.com/cossacklabs/acra/keystore/v2/keystore/filesystem/backend"
	backendapi "github.com/cossacklabs/acra/keystore/v2/keystore/filesystem/backend/api"

	"verif/internal/fix"
	"verif/internal/kshist"
)

// Formats of the stored-object properties (binding, tamper).
var storeFormats = []string{"v1", "v2/mem", "v2/dir"}

// built is a keystore with keys of every kind for some client ids, plus raw access to its stored objects.
type built struct {
	format string // v1 | v2/mem | v2/dir
	fx     kshist.Fixture
	dir    string             // v1, v2/dir: the directory holding the objects
	mem    backendapi.Backend // v2/mem
	close  func()
	keys   []kshist.K
	perms  map[string]os.FileMode // dir-based: the mode every object had when the store was built
}

// buildStore makes a fresh keystore (no cache) and generates, for every id, the three per-client
// kinds rots[id]+1 times, and the three global kinds rotGlobal+1 times.
func buildStore(format string, ids []string, rots []int, rotGlobal int) (*built, error) {
	b := &built{format: format}
	switch format {
	case "v1":
		dir := fix.TempDir("c07-v1-")
		fx, err := kshist.NewV1On(dir, nil, kshist.CacheOff)
		if err != nil {
			os.RemoveAll(dir)
			return nil, err
		}
		b.fx, b.dir, b.close = fx, dir, func() { fx.Close(); os.RemoveAll(dir) }
	case "v2/mem":
		m := backend.NewInMemory()
		fx, err := kshist.NewV2On(format, func() (backendapi.Backend, error) { return m, nil })
		if err != nil {
			return nil, err
		}
		b.fx, b.mem, b.close = fx, m, func() { fx.Close() }
	case "v2/dir":
		top := fix.TempDir("c07-v2-")
		root := filepath.Join(top, "ks")
		fx, err := kshist.NewV2On(format, func() (backendapi.Backend, error) {
			if _, serr := os.Stat(filepath.Join(root, "version")); serr == nil {
				return backend.OpenDirectoryBackend(root)
			}
			return backend.CreateDirectoryBackend(root)
		})
		if err != nil {
			os.RemoveAll(top)
			return nil, err
		}
		b.fx, b.dir, b.close = fx, root, func() { fx.Close(); os.RemoveAll(top) }
	default:
		return nil, fmt.Errorf("unknown format %q", format)
	}
	gen := func(k kshist.K, n int) error {
		for i := 0; i <= n; i++ {
			if err := b.fx.Generate(k.Kind, k.ID); err != nil {
				return fmt.Errorf("generate %s: %w", k, err)
			}
		}
		b.keys = append(b.keys, k)
		return nil
	}
	for i, id := range ids {
		for _, kind := range []string{kshist.StoragePair, kshist.StorageSym, kshist.HMAC} {
			if err := gen(kshist.K{Kind: kind, ID: id}, rots[i]); err != nil {
				b.close()
				return nil, err
			}
		}
	}
	for _, kind := range []string{kshist.PoisonPair, kshist.PoisonSym, kshist.AuditLog} {
		if err := gen(kshist.K{Kind: kind}, rotGlobal); err != nil {
			b.close()
			return nil, err
		}
	}
	b.perms = map[string]os.FileMode{}
	if b.dir != "" {
		for _, n := range b.names() {
			if fi, err := os.Stat(filepath.Join(b.dir, n)); err == nil {
				b.perms[n] = fi.Mode().Perm()
			}
		}
	}
	return b, nil
}

// object is one stored key object: a v1 key file (current or historical, private or public part)
// or a v2 key ring file.
type object struct {
	Name string   // relative path / back-end path
	K    kshist.K // the key it holds
	Part string   // "" or "pub" (v1 public key files)
	Hist bool     // v1: a file of the key's history directory
}

func (o object) String() string {
	s := o.K.String()
	if o.Part != "" {
		s += "." + o.Part
	}
	if o.Hist {
		s += "(old)"
	}
	return s
}

// kindPart names the object's kind for signatures: storagePair, storagePair.pub, ...
func (o object) kindPart() string {
	if o.Part != "" {
		return o.K.Kind + "." + o.Part
	}
	return o.K.Kind
}

func (b *built) names() []string {
	var out []string
	if b.mem != nil {
		out, _ = b.mem.ListAll()
		return out
	}
	filepath.Walk(b.dir, func(p string, info os.FileInfo, err error) error {
		if err == nil && info.Mode().IsRegular() {
			rel, _ := filepath.Rel(b.dir, p)
			out = append(out, rel)
		}
		return nil
	})
	sort.Strings(out)
	return out
}

// objects lists the stored key objects, sorted by name.
func (b *built) objects() []object {
	var out []object
	for _, n := range b.names() {
		o := object{Name: n}
		id := n
		if b.format == "v1" {
			if d := filepath.Dir(n); strings.HasSuffix(d, ".old") {
				o.Hist = true
				id = strings.TrimSuffix(d, ".old")
			}
			id = filepath.Base(id)
		} else {
			if !strings.HasSuffix(n, ".keyring") {
				continue // version, .lock
			}
			id = strings.TrimSuffix(n, ".keyring")
		}
		k, part, ok := b.fx.Classify(keystore.KeyDescription{KeyID: id})
		if !ok {
			continue
		}
		o.K, o.Part = k, part
		out = append(out, o)
	}
	return out
}

func (b *built) get(name string) ([]byte, error) {
	if b.mem != nil {
		d, err := b.mem.Get(name)
		return append([]byte(nil), d...), err
	}
	return os.ReadFile(filepath.Join(b.dir, name))
}

// put creates or replaces a stored object, as somebody with access to the storage would.
func (b *built) put(name string, data []byte) error {
	data = append([]byte(nil), data...)
	if b.mem != nil {
		if _, err := b.mem.Get(name); err == nil {
			tmp := name + ".c07tmp"
			if err := b.mem.Put(tmp, data); err != nil {
				return err
			}
			return b.mem.Rename(tmp, name)
		}
		return b.mem.Put(name, data)
	}
	p := filepath.Join(b.dir, name)
	mode, known := b.perms[name]
	if !known {
		mode = 0o600
	}
	// remove + create: truncating an existing file is two orders of magnitude slower on ext4
	os.Remove(p)
	if err := os.WriteFile(p, data, mode); err != nil {
		return err
	}
	return os.Chmod(p, mode)
}

// rename moves a stored object over another one.
func (b *built) rename(from, to string) error {
	if b.mem != nil {
		return b.mem.Rename(from, to)
	}
	return os.Rename(filepath.Join(b.dir, from), filepath.Join(b.dir, to))
}

// offered is everything the keystore API offers for one key.
type offered struct {
	Secrets [][]byte // current private/symmetric key and all keys offered for decryption
	Publics [][]byte
	Errs    []string // the reads that failed: "name: error"
	OK      []string // the reads that succeeded
	// By: what every successful reader of private / symmetric keys returned, in its order
	By map[string][][]byte
}

func (o offered) hasSecret(v []byte) bool {
	for _, s := range o.Secrets {
		if string(s) == string(v) {
			return true
		}
	}
	return false
}

func (o offered) hasPublic(v []byte) bool {
	for _, s := range o.Publics {
		if string(s) == string(v) {
			return true
		}
	}
	return false
}

// read reads one key through every reader the keystore API has for its kind.
func read(ks kshist.KeyStore, k kshist.K) offered {
	o := offered{By: map[string][][]byte{}}
	id := []byte(k.ID)
	note := func(name string, err error) bool {
		if err != nil {
			o.Errs = append(o.Errs, name+": "+errs(err))
			return false
		}
		o.OK = append(o.OK, name)
		return true
	}
	priv := func(name string, p *keys.PrivateKey, err error) {
		if note(name, err) && p != nil {
			o.Secrets = append(o.Secrets, cp(p.Value))
			o.By[name] = [][]byte{cp(p.Value)}
		}
	}
	privs := func(name string, ps []*keys.PrivateKey, err error) {
		if note(name, err) {
			o.By[name] = [][]byte{}
			for _, p := range ps {
				o.Secrets = append(o.Secrets, cp(p.Value))
				o.By[name] = append(o.By[name], cp(p.Value))
			}
		}
	}
	sym := func(name string, s []byte, err error) {
		if note(name, err) {
			o.Secrets = append(o.Secrets, cp(s))
			o.By[name] = [][]byte{cp(s)}
		}
	}
	syms := func(name string, ss [][]byte, err error) {
		if note(name, err) {
			o.By[name] = [][]byte{}
			for _, s := range ss {
				o.Secrets = append(o.Secrets, cp(s))
				o.By[name] = append(o.By[name], cp(s))
			}
		}
	}
	switch k.Kind {
	case kshist.StoragePair:
		p, err := ks.GetServerDecryptionPrivateKey(id)
		priv("GetServerDecryptionPrivateKey", p, err)
		ps, err := ks.GetServerDecryptionPrivateKeys(id)
		privs("GetServerDecryptionPrivateKeys", ps, err)
		pub, err := ks.GetClientIDEncryptionPublicKey(id)
		if note("GetClientIDEncryptionPublicKey", err) && pub != nil {
			o.Publics = append(o.Publics, cp(pub.Value))
		}
	case kshist.StorageSym:
		s, err := ks.GetClientIDSymmetricKey(id)
		sym("GetClientIDSymmetricKey", s, err)
		ss, err := ks.GetClientIDSymmetricKeys(id)
		syms("GetClientIDSymmetricKeys", ss, err)
	case kshist.HMAC:
		s, err := ks.GetHMACSecretKey(id)
		sym("GetHMACSecretKey", s, err)
	case kshist.PoisonPair:
		kp, err := ks.GetPoisonKeyPair()
		if note("GetPoisonKeyPair", err) && kp != nil {
			if kp.Private != nil {
				o.Secrets = append(o.Secrets, cp(kp.Private.Value))
			}
			if kp.Public != nil {
				o.Publics = append(o.Publics, cp(kp.Public.Value))
			}
		}
		ps, err := ks.GetPoisonPrivateKeys()
		privs("GetPoisonPrivateKeys", ps, err)
	case kshist.PoisonSym:
		s, err := ks.GetPoisonSymmetricKey()
		sym("GetPoisonSymmetricKey", s, err)
		ss, err := ks.GetPoisonSymmetricKeys()
		syms("GetPoisonSymmetricKeys", ss, err)
	case kshist.AuditLog:
		s, err := ks.GetLogSecretKey()
		sym("GetLogSecretKey", s, err)
	}
	return o
}

func cp(b []byte) []byte { return append([]byte(nil), b...) }

type ringExporter interface {
	ExportKeyRings(paths []string, cryptosuite *v2crypto.KeyStoreSuite, mode keystore.ExportMode) ([]byte, error)
}

// exportRingsV2 exports key rings with their private data under fresh-looking access keys.
func exportRingsV2(ks any, rings []string) ([]byte, error) {
	x, ok := ks.(ringExporter)
	if !ok {
		return nil, fmt.Errorf("keystore %T cannot export key rings", ks)
	}
	return x.ExportKeyRings(rings, fix.V2Suite(), keystore.ExportPrivateKeys)
}
