package c07

import (
	"bytes"
	"context"
	"flag"
	"fmt"
	"os"
	"path/filepath"
	"strings"
	"testing"

	"github.com/cossacklabs/themis/gothemis/keys"
	"pgregory.net/rapid"

	"github.com/cossacklabs/acra/keystore"
	"github.com/cossacklabs/acra/keystore/filesystem"
	v2api "github.com/cossacklabs/acra/keystore/v2/keystore/api"
	"github.com/cossacklabs/acra/keystore/v2/keystore/filesystem/backend"
	backendapi "github.com/cossacklabs/acra/keystore/v2/keystore/filesystem/backend/api"

	"verif/internal/fix"
	"verif/internal/hx"
)

// ConfCase: hostile identities / key paths, each fed to every public operation of one target.
type ConfCase struct {
	Target string `json:"target"` // v1 | v2/dir | v2/mem | backend/dir | backend/mem
	// Paths are the hostile client ids (keystores) or key paths (back ends), tried one after the other
	// in the same sandbox. The token <ABS> stands for the absolute path of the sandbox's canary directory.
	Paths   []string `json:"paths"`
	Classes []string `json:"classes,omitempty"` // generator classes of the paths, for the histogram
}

var confTargets = []string{"v1", "v2/dir", "v2/mem", "backend/dir", "backend/mem"}

// The sandbox: <tmp>/c07-conf-N/l1/l2/root is the keystore root, .../l1/l2/canary its sibling. A
// path can climb three levels and still be inside the per-case directory; generated paths contain at
// most three ".." components, so even a keystore without any containment cannot leave the sandbox.
const maxDotDot = 3

func countDotDot(p string) int {
	n := 0
	for _, c := range strings.FieldsFunc(p, func(r rune) bool { return r == '/' || r == '\\' }) {
		if strings.Contains(c, "..") {
			n++
		}
	}
	return n
}

func genHostile(t *rapid.T) (string, string) {
	leaf := rapid.SampledFrom([]string{"x", "victim", "alice", "planted", "client", "a b", "k_hmac", ".hidden", "version", ".lock"}).Draw(t, "leaf")
	up := rapid.SampledFrom([]string{"../", "../", "../../", "../../../", "..\\", "a/../../", "./../", "client/../../", "a/b/../../../"}).Draw(t, "up")
	switch class := rapid.SampledFrom([]string{"dotdot", "dotdot", "dotdot-canary", "dotdot-canary", "dotdot-sibling-prefix", "sep", "backslash", "nul", "dots", "abs", "long", "deep", "empty", "valid"}).Draw(t, "class"); class {
	case "dotdot":
		mid := rapid.SampledFrom([]string{"", "", "newdir/", "canary/", "root/"}).Draw(t, "mid")
		return up + mid + leaf, class
	case "dotdot-canary":
		return rapid.SampledFrom([]string{"../canary/", "..\\canary\\", "./../canary/", "a/../../canary/", "../../l2/canary/"}).Draw(t, "upc") + leaf, class
	case "dotdot-sibling-prefix":
		// a sibling of the root whose name starts with the root's name: a containment check by string prefix lets it pass
		return rapid.SampledFrom([]string{"../root-backup/", "../root.bak/", "../rootx/", "../root_old/client/", "a/../../root2/", "../root/../root-backup/", "..\\root-backup\\"}).Draw(t, "ups") + leaf, class
	case "sep":
		return rapid.SampledFrom([]string{"a/", "/", "a//", "a/b/", "/a/", "//"}).Draw(t, "pre") + leaf + rapid.SampledFrom([]string{"", "/", "/x", "//x"}).Draw(t, "post"), class
	case "backslash":
		return rapid.SampledFrom([]string{"a\\", "\\", "..\\..\\", "a\\..\\..\\"}).Draw(t, "pre") + leaf, class
	case "nul":
		return rapid.SampledFrom([]string{"\x00", "a\x00", "../\x00", "a\x00/../../"}).Draw(t, "pre") + leaf + rapid.SampledFrom([]string{"", "\x00"}).Draw(t, "post"), class
	case "dots":
		return rapid.SampledFrom([]string{".", "..", "...", "./", "./.", ".../", "..x", "x..", "../.", "../..", "a/..", "a/../.."}).Draw(t, "dots"), class
	case "abs":
		return "<ABS>/" + leaf, class
	case "long":
		n := rapid.SampledFrom([]int{250, 255, 256, 300, 1000, 5000}).Draw(t, "n")
		return rapid.SampledFrom([]string{"", "../", "a/"}).Draw(t, "pre") + strings.Repeat("a", n), class
	case "deep":
		n := rapid.SampledFrom([]int{8, 40}).Draw(t, "n")
		return strings.Repeat("d/", n) + rapid.SampledFrom([]string{"", "../../"}).Draw(t, "updeep") + leaf, class
	case "empty":
		return "", class
	}
	return rapid.SampledFrom([]string{"alice", "client_1", "Bob-2 x"}).Draw(t, "valid"), "valid"
}

func genConfCase(t *rapid.T) ConfCase {
	// the directory back end syncs every write to disk: the v2 keystore on it gets fewer cases
	c := ConfCase{Target: rapid.SampledFrom([]string{"v1", "v1", "v1", "backend/dir", "backend/dir", "v2/dir", "v2/mem", "backend/mem"}).Draw(t, "target")}
	n := rapid.IntRange(1, 3).Draw(t, "npaths")
	for i := 0; i < n; i++ {
		p, cl := genHostile(t)
		c.Paths = append(c.Paths, p)
		c.Classes = append(c.Classes, cl)
	}
	return c
}

// sandbox is the per-case directory tree.
type sandbox struct {
	top, root, canary string
}

func newSandbox() (*sandbox, error) {
	top, err := os.MkdirTemp("", "c07-conf-")
	if err != nil {
		return nil, err
	}
	s := &sandbox{top: top, root: filepath.Join(top, "l1", "l2", "root"), canary: filepath.Join(top, "l1", "l2", "canary")}
	for _, d := range []string{s.root, s.canary} {
		if err := os.MkdirAll(d, 0o700); err != nil {
			os.RemoveAll(top)
			return nil, err
		}
	}
	os.Chmod(filepath.Join(top, "l1"), 0o700)
	os.Chmod(filepath.Join(top, "l1", "l2"), 0o700)
	if err := os.WriteFile(filepath.Join(s.canary, "canary"), []byte(canaryContent), 0o600); err != nil {
		os.RemoveAll(top)
		return nil, err
	}
	return s, nil
}

const canaryContent = "C07 CANARY: this file lives outside the keystore root"

func (s *sandbox) close() {
	if os.RemoveAll(s.top) == nil {
		return
	}
	// directories made unreadable by the code under test must not survive
	filepath.Walk(s.top, func(p string, info os.FileInfo, err error) error {
		if err == nil && info.IsDir() {
			os.Chmod(p, 0o700)
		}
		return nil
	})
	os.RemoveAll(s.top)
}

// inside tells whether the cleaned absolute path p lies inside dir (or is dir).
func inside(dir, p string) bool {
	return p == dir || strings.HasPrefix(p, dir+string(os.PathSeparator))
}

// outsideChanges lists what changed in the sandbox outside the keystore root.
func (s *sandbox) outsideChanges(before, after map[string]entry) []string {
	relRoot, _ := filepath.Rel(s.top, s.root)
	return diff(before, after, func(rel string) bool { return !inside(relRoot, rel) })
}

// plant puts content at the absolute location loc if that is outside the root, inside the sandbox and free.
func (s *sandbox) plant(loc string, content []byte) bool {
	loc = filepath.Clean(loc)
	if strings.ContainsRune(loc, 0) || inside(s.root, loc) || !inside(s.top, loc) || loc == s.top {
		return false
	}
	if _, err := os.Lstat(loc); err == nil {
		return false
	}
	if len(loc) > 1000 {
		return false
	}
	if err := os.MkdirAll(filepath.Dir(loc), 0o700); err != nil {
		return false
	}
	return os.WriteFile(loc, content, 0o600) == nil
}

// op is one public operation under test; it returns the key material / data it produced.
type op struct {
	name string
	f    func(p string) ([][]byte, error)
}

// opSuffix: these back-end operations address p+suffix (for the lexical does-it-leave-the-root test).
var opSuffix = map[string]string{"RenameNX(to)": "-nx", "Put(.new)": ".keyring.new"}

// lastOfPhase: the operations run in phases (reads, destructions, generators, second round); the
// fast pass takes a snapshot at the end of every phase only.
var lastOfPhase = map[string]bool{
	"GetHMACSecretKey": true, "DestroyHmacSecretKey": true, "SaveDataEncryptionKeys": true,
	"Get": true, "Rename(from)": true, "Get#2": true, "RenameNX(to)": true,
	"KeyBackuper.Export(ids)": true, "ExportKeyRings": true,
}

func one(b []byte, err error) ([][]byte, error) {
	if err != nil || b == nil {
		return nil, err
	}
	return [][]byte{cp(b)}, nil
}

func privOf(p *keys.PrivateKey, err error) ([][]byte, error) {
	if err != nil || p == nil {
		return nil, err
	}
	return [][]byte{cp(p.Value)}, nil
}

func privsOf(ps []*keys.PrivateKey, err error) ([][]byte, error) {
	var out [][]byte
	for _, p := range ps {
		if p != nil {
			out = append(out, cp(p.Value))
		}
	}
	return out, err
}

func pubOf(p *keys.PublicKey, err error) ([][]byte, error) {
	if err != nil || p == nil {
		return nil, err
	}
	return [][]byte{cp(p.Value)}, nil
}

func none(err error) ([][]byte, error) { return nil, err }

type serverKS interface {
	keystore.ServerKeyStore
	keystore.StorageKeyDestruction
	keystore.StorageRotatedKeyDestruction
}

// serverOps are the client-id-taking operations both keystore formats share.
func serverOps(ks serverKS) []op {
	return []op{
		{"GetServerDecryptionPrivateKey", func(p string) ([][]byte, error) { return privOf(ks.GetServerDecryptionPrivateKey([]byte(p))) }},
		{"GetServerDecryptionPrivateKeys", func(p string) ([][]byte, error) { return privsOf(ks.GetServerDecryptionPrivateKeys([]byte(p))) }},
		{"GetClientIDEncryptionPublicKey", func(p string) ([][]byte, error) { return pubOf(ks.GetClientIDEncryptionPublicKey([]byte(p))) }},
		{"GetClientIDSymmetricKey", func(p string) ([][]byte, error) { return one(ks.GetClientIDSymmetricKey([]byte(p))) }},
		{"GetClientIDSymmetricKeys", func(p string) ([][]byte, error) { return ks.GetClientIDSymmetricKeys([]byte(p)) }},
		{"GetHMACSecretKey", func(p string) ([][]byte, error) { return one(ks.GetHMACSecretKey([]byte(p))) }},
		{"DestroyRotatedClientIDEncryptionKeyPair", func(p string) ([][]byte, error) {
			return none(ks.DestroyRotatedClientIDEncryptionKeyPair([]byte(p), 2))
		}},
		{"DestroyRotatedClientIDSymmetricKey", func(p string) ([][]byte, error) { return none(ks.DestroyRotatedClientIDSymmetricKey([]byte(p), 2)) }},
		{"DestroyRotatedHmacSecretKey", func(p string) ([][]byte, error) { return none(ks.DestroyRotatedHmacSecretKey([]byte(p), 2)) }},
		{"DestroyClientIDEncryptionKeyPair", func(p string) ([][]byte, error) { return none(ks.DestroyClientIDEncryptionKeyPair([]byte(p))) }},
		{"DestroyClientIDSymmetricKey", func(p string) ([][]byte, error) { return none(ks.DestroyClientIDSymmetricKey([]byte(p))) }},
		{"DestroyHmacSecretKey", func(p string) ([][]byte, error) { return none(ks.DestroyHmacSecretKey([]byte(p))) }},
		{"GenerateDataEncryptionKeys", func(p string) ([][]byte, error) { return none(ks.GenerateDataEncryptionKeys([]byte(p))) }},
		{"GenerateClientIDSymmetricKey", func(p string) ([][]byte, error) { return none(ks.GenerateClientIDSymmetricKey([]byte(p))) }},
		{"GenerateHmacKey", func(p string) ([][]byte, error) { return none(ks.GenerateHmacKey([]byte(p))) }},
		{"SaveDataEncryptionKeys", func(p string) ([][]byte, error) {
			kp, err := keys.New(keys.TypeEC)
			if err != nil {
				return nil, nil
			}
			return none(ks.SaveDataEncryptionKeys([]byte(p), kp))
		}},
		// a second round after the generators: rotation and reads of what was just written
		{"GenerateHmacKey#2", func(p string) ([][]byte, error) { return none(ks.GenerateHmacKey([]byte(p))) }},
		{"GenerateClientIDSymmetricKey#2", func(p string) ([][]byte, error) { return none(ks.GenerateClientIDSymmetricKey([]byte(p))) }},
		{"DestroyRotatedHmacSecretKey#2", func(p string) ([][]byte, error) { return none(ks.DestroyRotatedHmacSecretKey([]byte(p), 2)) }},
		{"DestroyClientIDSymmetricKey#2", func(p string) ([][]byte, error) { return none(ks.DestroyClientIDSymmetricKey([]byte(p))) }},
	}
}

type v2Store interface {
	OpenKeyRing(path string) (v2api.KeyRing, error)
	OpenKeyRingRW(path string) (v2api.MutableKeyRing, error)
	DescribeKeyRing(path string) (*keystore.KeyDescription, error)
}

// target is the code under test of one case plus what was planted for it.
type target struct {
	ops     []op
	close   func()
	plant   func(p string) // plants, outside the root, what a target without containment would find for p
	planted [][]byte       // contents planted outside the root that no operation may return
	dirBE   bool           // directory back end addressed directly: an escaping path must be refused with an error
}

func openTarget(c ConfCase, s *sandbox) (*target, error) {
	t := &target{close: func() {}, plant: func(string) {}}
	switch c.Target {
	case "v1":
		ks, err := filesystem.NewCustomFilesystemKeyStore().KeyDirectory(s.root).Encryptor(fix.V1Encryptor()).CacheSize(keystore.WithoutCache).Build()
		if err != nil {
			return nil, err
		}
		// key files a v1 keystore without containment would find for this id outside the root
		enc := fix.V1Encryptor()
		t.plant = func(p string) {
			for _, x := range []struct {
				suffix  string
				purpose keystore.KeyPurpose
				pair    bool
			}{{"_storage", keystore.PurposeStorageClientPrivateKey, true}, {"_storage_sym", keystore.PurposeStorageClientSymmetricKey, false},
				{"_hmac", keystore.PurposeSearchHMAC, false}, {"_server", keystore.PurposeLegacy, true}} {
				if loc := filepath.Clean(s.root + "/" + p + x.suffix); inside(s.root, loc) || !inside(s.top, loc) {
					continue // nothing to plant: the name stays inside the root
				}
				secret := bytes.Repeat([]byte{0xC7}, 32)
				copy(secret, "planted"+x.suffix)
				var pub []byte
				if x.pair {
					kp, err := keys.New(keys.TypeEC)
					if err != nil {
						continue
					}
					secret, pub = kp.Private.Value, kp.Public.Value
				}
				blob, err := enc.Encrypt(context.Background(), secret, keystore.NewClientIDKeyContext(x.purpose, []byte(p)))
				if err != nil {
					continue
				}
				if s.plant(s.root+"/"+p+x.suffix, blob) {
					t.planted = append(t.planted, cp(secret))
				}
				if pub != nil && s.plant(s.root+"/"+p+x.suffix+".pub", pub) {
					t.planted = append(t.planted, cp(pub))
				}
			}
		}
		t.ops = serverOps(ks)
		bk, _ := filesystem.NewKeyBackuper(s.root, "", &filesystem.DummyStorage{}, fix.V1Encryptor(), ks)
		t.ops = append(t.ops,
			op{"GetPrivateKey", func(p string) ([][]byte, error) { return privOf(ks.GetPrivateKey([]byte(p))) }},
			op{"GetPeerPublicKey", func(p string) ([][]byte, error) { return pubOf(ks.GetPeerPublicKey([]byte(p))) }},
			op{"GenerateConnectorKeys", func(p string) ([][]byte, error) { return none(ks.GenerateConnectorKeys([]byte(p))) }},
			op{"GenerateServerKeys", func(p string) ([][]byte, error) { return none(ks.GenerateServerKeys([]byte(p))) }},
			op{"GenerateTranslatorKeys", func(p string) ([][]byte, error) { return none(ks.GenerateTranslatorKeys([]byte(p))) }},
			op{"GetHistoricalPrivateKeyFilenames", func(p string) ([][]byte, error) {
				_, err := ks.GetHistoricalPrivateKeyFilenames(p)
				return nil, err
			}},
			op{"KeyBackuper.Export(ids)", func(p string) ([][]byte, error) {
				var firstErr error
				for _, kind := range []string{keystore.KeyStoragePrivate, keystore.KeyStoragePublic, keystore.KeySymmetric, keystore.KeySearch} {
					if _, err := bk.Export([]keystore.ExportID{{KeyKind: kind, ContextID: []byte(p)}}, keystore.ExportPrivateKeys); err != nil && firstErr == nil {
						firstErr = err
					}
				}
				return nil, firstErr
			}},
		)
		return t, nil
	case "v2/dir", "v2/mem":
		var b backendapi.Backend
		if c.Target == "v2/dir" {
			d, err := backend.CreateDirectoryBackend(s.root)
			if err != nil {
				return nil, err
			}
			b = d
		} else {
			b = backend.NewInMemory()
		}
		ks, ms := fix.V2OnBackend(b)
		t.close = func() { ms.Close() }
		var sks serverKS = ks
		var st v2Store = ks
		t.ops = serverOps(sks)
		t.ops = append(t.ops,
			op{"OpenKeyRing", func(p string) ([][]byte, error) { _, err := st.OpenKeyRing(p); return nil, err }},
			op{"DescribeKeyRing", func(p string) ([][]byte, error) { _, err := st.DescribeKeyRing(p); return nil, err }},
			op{"ExportKeyRings", func(p string) ([][]byte, error) { _, err := exportRingsV2(ks, []string{p}); return nil, err }},
			op{"OpenKeyRingRW", func(p string) ([][]byte, error) { _, err := st.OpenKeyRingRW(p); return nil, err }},
			op{"OpenKeyRingRW+AddKey", func(p string) ([][]byte, error) {
				r, err := st.OpenKeyRingRW(p)
				if err != nil {
					return nil, err
				}
				_, err = r.AddKey(v2api.KeyDescription{Data: []v2api.KeyData{{Format: v2api.ThemisSymmetricKeyFormat, SymmetricKey: bytes.Repeat([]byte{7}, 32)}}})
				return nil, err
			}},
			op{"ExportKeyRings#2", func(p string) ([][]byte, error) { _, err := exportRingsV2(ks, []string{p}); return nil, err }},
		)
		return t, nil
	case "backend/dir", "backend/mem":
		var b backendapi.Backend
		if c.Target == "backend/dir" {
			d, err := backend.CreateDirectoryBackend(s.root)
			if err != nil {
				return nil, err
			}
			b = d
			t.dirBE = true
			// what a directory back end without containment would find for this path outside the root
			t.plant = func(p string) {
				norm := strings.NewReplacer("\\", "/").Replace(p)
				content := []byte(canaryContent + " (planted for the path)")
				if s.plant(s.root+"/"+norm, content) {
					t.planted = append(t.planted, content)
				}
			}
		} else {
			b = backend.NewInMemory()
		}
		t.close = func() { b.Close() }
		t.planted = append(t.planted, []byte(canaryContent))
		data := []byte("c07 data")
		seed := func(name string) { b.Put(name, data) }
		t.ops = []op{
			{"Get", func(p string) ([][]byte, error) { return one(b.Get(p)) }},
			{"RenameNX(from)", func(p string) ([][]byte, error) { return none(b.RenameNX(p, "moved-nx")) }},
			{"Rename(from)", func(p string) ([][]byte, error) { return none(b.Rename(p, "moved")) }},
			{"Put", func(p string) ([][]byte, error) { return none(b.Put(p, data)) }},
			{"Get#2", func(p string) ([][]byte, error) { return one(b.Get(p)) }},
			{"Rename(to)", func(p string) ([][]byte, error) { seed("src1"); return none(b.Rename("src1", p)) }},
			{"RenameNX(to)", func(p string) ([][]byte, error) { seed("src2"); return none(b.RenameNX("src2", p+"-nx")) }},
			{"Rename(both)", func(p string) ([][]byte, error) { return none(b.Rename(p, p+"-2")) }},
			{"Put(.new)", func(p string) ([][]byte, error) { return none(b.Put(p+".keyring.new", data)) }},
			{"ListAll", func(p string) ([][]byte, error) {
				names, err := b.ListAll()
				var out [][]byte
				for _, n := range names {
					if d, gerr := b.Get(n); gerr == nil {
						out = append(out, d)
					}
				}
				return out, err
			}},
		}
		return t, nil
	}
	return nil, fmt.Errorf("unknown target %q", c.Target)
}

// lexicallyEscapes tells whether a back-end key path, resolved lexically below a root, leaves it.
func lexicallyEscapes(p string) bool {
	norm := strings.NewReplacer("\\", "/").Replace(p)
	full := filepath.Clean("/sandbox/l1/l2/root/" + norm) // the same names as in the sandbox: "../root/x" does not escape
	return !inside("/sandbox/l1/l2/root", full)
}

type confInfo struct {
	ops, errors, planted int
	nontrivial           bool
}

// CheckConfinement feeds the path to every operation of the target inside a fresh sandbox. After
// every operation nothing outside the keystore root may have been created, changed or removed, no
// operation may return what was planted outside the root, and a directory back end must refuse a
// path that leaves the root. A fast pass compares sandbox snapshots (names, modes, sizes, times) at
// the end of every phase of operations; if it finds anything, the case is run again in a fresh
// sandbox with a full snapshot (content hashes) after every single operation, and that run decides.
func CheckConfinement(c ConfCase) (hx.Vs, *confInfo) {
	vs, info := checkConfinement(c, false)
	if len(vs) > 0 {
		vs2, info2 := checkConfinement(c, true)
		if len(vs2) > 0 {
			return vs2, info2
		}
	}
	return vs, info
}

func checkConfinement(c ConfCase, slow bool) (hx.Vs, *confInfo) {
	var vs hx.Vs
	info := &confInfo{}
	fix.Quiet()
	for _, p := range c.Paths {
		if countDotDot(p) > maxDotDot {
			vs.Add("harness:path", "path with more than %d '..' components would leave the sandbox of a keystore without containment", maxDotDot)
			return vs, info
		}
	}
	s, err := newSandbox()
	if err != nil {
		vs.Add("harness:sandbox", "%v", errs(err))
		return vs, info
	}
	defer s.close()
	var t *target
	if hx.Guard(&vs, "open/"+c.Target, func() { t, err = openTarget(c, s) }) {
		return vs, info
	}
	if err != nil {
		vs.Add("harness:target", "%s: %v", c.Target, errs(err))
		return vs, info
	}
	defer t.close()
	seen := map[string]bool{}
	add := func(sig, format string, args ...any) {
		if !seen[sig] {
			seen[sig] = true
			vs.Add(sig, format, args...)
		}
	}
	for _, path := range c.Paths {
		p := strings.ReplaceAll(path, "<ABS>", s.canary)
		if strings.ContainsAny(p, "/\\") || strings.Contains(p, "..") {
			info.nontrivial = true
		}
		t.plant(p)
		info.planted = len(t.planted)
		shown := fmt.Sprintf("%q", path)
		if len(shown) > 80 {
			shown = fmt.Sprintf("%q…(%d bytes)", path[:min(60, len(path))], len(path))
		}
		before := snapshot(s.top, slow)
		for i, o := range t.ops {
			var out [][]byte
			var oerr error
			if hx.Guard(&vs, o.name+"/"+c.Target, func() { out, oerr = o.f(p) }) {
				return vs, info
			}
			info.ops++
			if oerr != nil {
				info.errors++
			}
			if slow || lastOfPhase[o.name] || i == len(t.ops)-1 {
				after := snapshot(s.top, slow)
				if ch := s.outsideChanges(before, after); len(ch) > 0 {
					if len(ch) > 4 {
						ch = append(ch[:4], fmt.Sprintf("… %d more", len(ch)-4))
					}
					add("escape:"+c.Target+":"+o.name, "%s: %s(%s) returned %v and touched paths outside the keystore root <sandbox>/l1/l2/root: %s", c.Target, o.name, shown, errs(oerr), clean(strings.Join(ch, ", ")))
				}
				before = after
			}
			for _, v := range out {
				for _, pl := range t.planted {
					if len(v) > 0 && bytes.Equal(v, pl) {
						add("read-outside-root:"+c.Target+":"+o.name, "%s: %s(%s) returned data planted outside the keystore root (err %v)", c.Target, o.name, shown, errs(oerr))
					}
				}
			}
			if t.dirBE && oerr == nil && lexicallyEscapes(p+opSuffix[o.name]) && o.name != "ListAll" {
				add("escaping-path-accepted:"+c.Target+":"+o.name, "%s: %s(%s) succeeded although the path leaves the root", c.Target, o.name, shown)
			}
		}
	}
	return vs, info
}

// TestConfinement: quick 3 shards x 330 cases x 1-3 paths = about 2000 hostile paths, each fed to every operation of its target.
func TestConfinement(t *testing.T) {
	const name = "TestConfinement"
	R.Rule(name, "hostile client ids / key paths (.. components incl. ones aimed at a sibling canary directory, separators, backslashes, NUL, dot names, absolute paths, over-long names, deep paths, empty, plus valid controls) x target (v1 keystore, v2 keystore on the directory and in-memory back ends, the two back ends directly); the path is fed to every public operation of the target (reads, generators, SaveDataEncryptionKeys, destroy current/rotated, v1 legacy generators and export by id, v2 OpenKeyRing/RW/AddKey/Describe/ExportKeyRings, back-end Get/Put/Rename/RenameNX/ListAll) inside a sandbox <tmp>/case/l1/l2/root with a sibling canary directory; key files / data a keystore without containment would find for that path are planted outside the root. After every operation: the snapshot of the whole sandbox differs only inside the root, nothing planted outside is returned, and the directory back end refuses a path that lexically leaves the root. Non-trivial = the path contains a separator or '..'")
	hx.Checks(330, 3000)
	flag.Set("rapid.shrinktime", "10s") // cases are small; every evaluation builds a keystore
	rapid.Check(t, func(rt *rapid.T) {
		c := genConfCase(rt)
		vs, info := CheckConfinement(c)
		cl := []string{"target:" + c.Target}
		for _, k := range c.Classes {
			cl = append(cl, "class:"+k)
		}
		if info.planted > 0 {
			cl = append(cl, "planted-outside")
		}
		R.Seen(name, c, info.nontrivial, cl...)
		R.Report(rt, name, c, vs)
	})
}

// FuzzBackendPath feeds arbitrary bytes as key path to the directory back end (thorough tier).
func FuzzBackendPath(f *testing.F) {
	for _, s := range []string{"../escaped", "a/b", "..", "a/../../x", "..\\x", "\x00", "/abs", "client/alice/storage.keyring", "../canary/canary", "a/./b/../../../canary/canary", ""} {
		f.Add([]byte(s))
	}
	f.Fuzz(func(t *testing.T, path []byte) {
		fix.Quiet()
		p := string(path)
		if countDotDot(p) > maxDotDot || len(p) > 2000 {
			t.Skip()
		}
		if strings.HasPrefix(p, "/") || strings.HasPrefix(p, "\\") {
			p = "<ABS>" + p
		}
		for _, target := range []string{"backend/dir", "backend/mem"} {
			vs, _ := CheckConfinement(ConfCase{Target: target, Paths: []string{p}})
			for _, v := range vs {
				if R.IsKnown(v.Sig) {
					continue
				}
				t.Fatalf("violation %s: %s", v.Sig, v.Msg)
			}
		}
	})
}
