package c07

import (
	"bytes"
	"flag"
	"fmt"
	"os"
	"path/filepath"
	"sort"
	"strings"
	"testing"

	"pgregory.net/rapid"

	"github.com/cossacklabs/acra/keystore"
	"github.com/cossacklabs/acra/keystore/filesystem"
	"github.com/cossacklabs/acra/keystore/v2/keystore/filesystem/backend"
	backendapi "github.com/cossacklabs/acra/keystore/v2/keystore/filesystem/backend/api"

	"verif/internal/fix"
	"verif/internal/hx"
	"verif/internal/kshist"
)

// SecretsCase is one keystore history run on a capture-wrapped back end.
type SecretsCase struct {
	Fixture string      `json:"fixture"` // v1/cache=off|1|inf, v2/mem, v2/dir
	IDs     []string    `json:"ids"`
	Ops     []kshist.Op `json:"ops"`
}

var idPool = []string{"alice", "alice_1", "Alice", "bob 2-x", "x_storage", "k_hmac_z", "storage_sym", "poison_key", "aaaaa"}

func genSecretsCase(t *rapid.T, fixture string) SecretsCase {
	c := SecretsCase{Fixture: fixture}
	for i, f := range kshist.FixtureNames {
		if f == fixture {
			for j := 0; j < i; j++ {
				rapid.Uint64().Draw(t, "salt")
			}
		}
	}
	c.IDs = rapid.SliceOfNDistinct(rapid.SampledFrom(idPool), 1, 3, rapid.ID[string]).Draw(t, "ids")
	c.Ops = kshist.GenOps(t, 20, c.IDs)
	return c
}

// capFixture is a kshist fixture on capture-wrapped storage.
type capFixture struct {
	kshist.Fixture
	cap     *capture
	dir     string             // real directory (v1, v2/dir), "" for v2/mem
	raw     backendapi.Backend // v2: the unwrapped back end (for reading the stored state)
	cleanup func()
}

func (f *capFixture) Close() {
	f.Fixture.Close()
	if f.cleanup != nil {
		f.cleanup()
	}
}

func openCaptured(name string) (*capFixture, error) {
	cf := &capFixture{cap: &capture{}}
	switch {
	case strings.HasPrefix(name, "v1/cache="):
		dir := fix.TempDir("c07-v1-")
		cf.dir, cf.cleanup = dir, func() { os.RemoveAll(dir) }
		fx, err := kshist.NewV1On(dir, &capStorage{&filesystem.DummyStorage{}, cf.cap}, strings.TrimPrefix(name, "v1/cache="))
		if err != nil {
			os.RemoveAll(dir)
			return nil, err
		}
		cf.Fixture = fx
	case name == "v2/mem":
		b := backend.NewInMemory()
		cf.raw = b
		fx, err := kshist.NewV2On(name, func() (backendapi.Backend, error) { return &capBackend{b, cf.cap}, nil })
		if err != nil {
			return nil, err
		}
		cf.Fixture = fx
	case name == "v2/dir":
		top := fix.TempDir("c07-v2-")
		root := filepath.Join(top, "ks")
		cf.dir, cf.cleanup = root, func() { os.RemoveAll(top) }
		open := func() (backendapi.Backend, error) {
			if _, serr := os.Stat(filepath.Join(root, "version")); serr == nil {
				return backend.OpenDirectoryBackend(root)
			}
			return backend.CreateDirectoryBackend(root)
		}
		fx, err := kshist.NewV2On(name, func() (backendapi.Backend, error) {
			b, err := open()
			if err != nil {
				return nil, err
			}
			return &capBackend{b, cf.cap}, nil
		})
		if err != nil {
			os.RemoveAll(top)
			return nil, err
		}
		raw, err := open()
		if err != nil {
			fx.Close()
			os.RemoveAll(top)
			return nil, err
		}
		cf.raw = raw
		cf.Fixture = fx
	default:
		return nil, fmt.Errorf("unknown fixture %q", name)
	}
	return cf, nil
}

// stored returns what the storage holds now: name -> content.
func (f *capFixture) stored() map[string][]byte {
	out := map[string][]byte{}
	if f.raw != nil {
		paths, _ := f.raw.ListAll()
		for _, p := range paths {
			if d, err := f.raw.Get(p); err == nil {
				out[p] = d
			}
		}
		return out
	}
	filepath.Walk(f.dir, func(p string, info os.FileInfo, err error) error {
		if err == nil && info.Mode().IsRegular() {
			rel, _ := filepath.Rel(f.dir, p)
			if d, rerr := os.ReadFile(p); rerr == nil {
				out[rel] = d
			}
		}
		return nil
	})
	return out
}

// cacheGetter is the part of the v1 keystore that exposes its key cache.
type cacheGetter interface {
	Get(keyID string) ([]byte, bool)
}

type secretsInfo struct {
	secrets, writes, cacheEntries, bundles int
	classes                                []string
}

// CheckSecrets runs the history on a capturing back end, learns every secret through the API and
// looks for it in everything that was written, cached, stored and exported; then checks file modes.
func CheckSecrets(c SecretsCase) (hx.Vs, *secretsInfo) {
	var vs hx.Vs
	info := &secretsInfo{}
	fx, err := openCaptured(c.Fixture)
	if err != nil {
		vs.Add("harness:open", "cannot open fixture %q: %v", c.Fixture, errs(err))
		return vs, info
	}
	defer fx.Close()
	format := fx.Format()

	// cache values seen after every step: name -> distinct values, with the life-cycle state of the handle
	// (reopened / reset how often) at the time the value was first seen
	var cacheSeen []cachedEntry
	names := map[string]bool{}
	probeCache := func(applied int) {
		g, ok := fx.KS().(cacheGetter)
		if !ok || fx.dir == "" || format != "v1" {
			return
		}
		for n := range fx.stored() {
			names[n] = true
			names[filepath.Join(fx.dir, n)] = true // public keys are cached under their full path
		}
		sorted := make([]string, 0, len(names))
		for n := range names {
			sorted = append(sorted, n)
		}
		sort.Strings(sorted)
		for _, n := range sorted {
			if v, ok := g.Get(n); ok && len(v) > 0 {
				dup := false
				for _, s := range cacheSeen {
					if s.name == n && bytes.Equal(s.val, v) {
						dup = true
						break
					}
				}
				if !dup {
					cacheSeen = append(cacheSeen, cachedEntry{applied, n, append([]byte(nil), v...), stateAfter(c.Ops, applied)})
				}
			}
		}
	}
	hooks := kshist.Hooks{AfterStep: func(step int, op kshist.Op, r *kshist.Runner) { probeCache(step + 1) }}
	var res *kshist.Result
	if hx.Guard(&vs, "history/"+format, func() { res = kshist.Run(fx, c.Ops, hooks) }) {
		return vs, info
	}
	probeCache(res.Steps)
	if res.Discard != "" {
		info.classes = append(info.classes, "discarded")
		return vs, info
	}
	for _, v := range res.Vs {
		if strings.HasPrefix(v.Sig, "harness:") {
			vs = append(vs, v)
			return vs, info
		}
		// violations of the history model are property C06's business; the run stops at them, the
		// secrets learnt up to that point are still scanned for
		info.classes = append(info.classes, "history-with-C06-finding")
		break
	}

	// the secrets, as learnt through the API
	var secrets []secret
	var publics []secret
	for _, k := range res.Model.Keys() {
		for _, g := range res.Model.H(k).Gens {
			if !g.Learnt {
				continue
			}
			secrets = append(secrets, secret{k.String() + "/" + g.Label(), append([]byte(nil), g.Val.Secret...)})
			if len(g.Val.Public) > 0 {
				publics = append(publics, secret{k.String() + "/" + g.Label() + ".pub", append([]byte(nil), g.Val.Public...)})
			}
		}
		info.classes = append(info.classes, "key:"+k.Kind+"@"+format)
	}
	info.secrets = len(secrets)
	info.writes = len(fx.cap.writes)

	// 1a. every byte sequence handed to the storage
	for i, w := range fx.cap.writes {
		if hit, ok := scan(w.data, secrets); ok {
			vs.Add("clear-secret-written:"+w.call+"@"+format, "%s: write #%d (%s %s): %s", c.Fixture, i, w.call, clean(w.path), hit)
			return vs, info
		}
	}
	// positive control of capture + scanner: public keys are stored in clear and must be found
	for _, p := range publics {
		found := false
		for _, w := range fx.cap.writes {
			if bytes.Contains(w.data, p.val) {
				found = true
				break
			}
		}
		if !found {
			vs.Add("harness:capture-control", "%s: the public key %s was generated but occurs in none of the %d captured writes", c.Fixture, p.label, len(fx.cap.writes))
			return vs, info
		}
		info.classes = append(info.classes, "control:public-key-found-in-writes")
		break
	}
	// 1b. what the storage holds at the end
	for name, data := range fx.stored() {
		if hit, ok := scan(data, secrets); ok {
			vs.Add("clear-secret-stored@"+format, "%s: stored object %s: %s", c.Fixture, clean(name), hit)
			return vs, info
		}
	}
	// 1c. the key cache
	info.cacheEntries = len(cacheSeen)
	for _, s := range cacheSeen {
		if hit, ok := scan(s.val, secrets); ok {
			vs.Add("clear-secret-cached@"+format, "%s: after %d operations the key cache holds under %q: %s", c.Fixture, s.step, clean(s.name), hit)
			return vs, info
		}
	}
	if fx.Cached() && len(cacheSeen) > 0 {
		info.classes = append(info.classes, "cache-entries-scanned")
		for _, p := range publics {
			for _, s := range cacheSeen {
				if bytes.Equal(s.val, p.val) {
					info.classes = append(info.classes, "control:public-key-found-in-cache")
				}
			}
		}
	}
	// 1c'. what a cache entry is worth without the cache key (cachekey_test.go)
	if fx.Cached() && len(cacheSeen) > 0 {
		ck := checkCacheKeys(&vs, c, fx, cacheSeen, secrets, publics)
		info.classes = append(info.classes, ck.classes...)
		if len(vs) > 0 {
			return vs, info
		}
	}
	// 1d. export bundles (everything, private keys included)
	if len(secrets) > 0 {
		var bundle []byte
		var xerr error
		hx.Guard(&vs, "export/"+format, func() { bundle, xerr = exportAll(fx) })
		if len(vs) > 0 {
			return vs, info
		}
		if xerr != nil {
			info.classes = append(info.classes, "export-error@"+format) // whether export works is property C18's business
		} else {
			info.bundles++
			info.classes = append(info.classes, "bundle-scanned@"+format)
			if hit, ok := scan(bundle, secrets); ok {
				vs.Add("clear-secret-in-bundle@"+format, "%s: export bundle: %s", c.Fixture, hit)
				return vs, info
			}
		}
	}
	// 5. file modes
	if fx.dir != "" {
		checkModes(&vs, c.Fixture, format, fx.dir)
		info.classes = append(info.classes, "modes-checked@"+format)
	}
	return vs, info
}

// exportAll exports every key with its private part through the format's exporter.
func exportAll(fx *capFixture) ([]byte, error) {
	if fx.Format() == "v1" {
		bk, err := filesystem.NewKeyBackuper(fx.dir, "", &filesystem.DummyStorage{}, fix.V1Encryptor(), fx.KS())
		if err != nil {
			return nil, err
		}
		b, err := bk.Export(nil, keystore.ExportAllKeys)
		if err != nil {
			return nil, err
		}
		return b.Data, nil
	}
	type exporter interface {
		ListKeyRings() ([]string, error)
	}
	ks := fx.KS()
	rings, err := ks.(exporter).ListKeyRings()
	if err != nil {
		return nil, err
	}
	return exportRingsV2(ks, rings)
}

// checkModes: private material 0600, directories 0700 (v1: PrivateFileMode/keyDirMode and 0644 for
// public keys; v2: keyFilePerm/keyDirPerm, 0644 for the version file; the lock file is empty).
func checkModes(vs *hx.Vs, fixture, format, root string) {
	var bad []string
	filepath.Walk(root, func(p string, info os.FileInfo, err error) error {
		if err != nil {
			return nil
		}
		rel, _ := filepath.Rel(root, p)
		perm := info.Mode().Perm()
		switch {
		case info.IsDir():
			if perm != 0o700 {
				bad = append(bad, fmt.Sprintf("directory %s has mode %o, expected 700", rel, perm))
			}
		case format == "v2" && (rel == "version" || rel == ".lock"):
			if perm&0o022 != 0 {
				bad = append(bad, fmt.Sprintf("%s is writable by others (%o)", rel, perm))
			}
		case format == "v1" && (strings.HasSuffix(rel, ".pub") || strings.HasSuffix(filepath.Dir(rel), ".pub.old")):
			if perm&0o133 != 0 {
				bad = append(bad, fmt.Sprintf("public key file %s has mode %o, expected 644 or stricter", rel, perm))
			}
		default:
			if perm != 0o600 {
				bad = append(bad, fmt.Sprintf("private key file %s has mode %o, expected 600", rel, perm))
			}
		}
		return nil
	})
	if len(bad) > 0 {
		sort.Strings(bad)
		vs.Add("file-mode@"+format, "%s: %s", fixture, clean(strings.Join(bad, "; ")))
	}
}

func secretsTest(fixture string) string { return "TestNoClearSecrets/" + fixture }

func secretsCounts(fixture string) (int, int) {
	switch fixture {
	case "v2/mem":
		return 80, 700
	case "v2/dir":
		return 20, 160
	}
	return 50, 400
}

// TestNoClearSecrets: quick 2 shards x (3 x 50 + 80 + 20) = 500 histories.
func TestNoClearSecrets(t *testing.T) {
	for _, fixture := range kshist.FixtureNames {
		fixture := fixture
		t.Run(strings.NewReplacer("/", "-", "=", "-").Replace(fixture), func(t *testing.T) {
			name := secretsTest(fixture)
			R.Rule(name, "kshist histories (1-20 operations, 6 key kinds, 1-3 client ids) on capture-wrapped storage (v1: filesystem.Storage wrapper, cache off/1/unbounded; v2: back-end wrapper over the in-memory and directory back ends); every private/symmetric key value is learnt by reading it through the API; none may occur raw, in hex or in base64 (nor its last 24 bytes raw/hex) in any byte sequence handed to WriteFile/Put, in the stored objects, in the values of the v1 key cache (probed after every step through KeyStore.Get for every stored name), or in an export bundle of all keys; every distinct sealed cache entry, in whatever state of the handle it was made (new, reopened, reset once or more: the histories contain reset and reopen operations followed by reads), must be worthless without the cache key: (a) it does not open as a Secure Cell under a key that needs no secret (buffer filled with 0x00/0xff in sizes 1-64, counting patterns, ids / cache names / kinds / fixed context names raw and zero-padded, public keys of the case; for the first entry of every handle state also a key-sized buffer of any byte value) with no context, the owner id, the cache / key file name or a fixed context name; (b) planted under its name in the cache of an unrelated keystore (other master key, empty directory, same cache size, same number of Reset calls) it does not make that keystore return the key (control: the read error changes from not-found to a decryption error); positive control: generated public keys must be found in the captured writes; file modes 0600/0700 on real directories. Non-trivial = at least one secret learnt and at least one captured write scanned")
			q, th := secretsCounts(fixture)
			hx.Checks(q, th)
			flag.Set("rapid.shrinktime", "10s") // cases are small; every evaluation builds a keystore
			rapid.Check(t, func(rt *rapid.T) {
				c := genSecretsCase(rt, fixture)
				vs, info := CheckSecrets(c)
				cl := append([]string{"fixture:" + c.Fixture}, info.classes...)
				R.Seen(name, c, info.secrets > 0 && info.writes > 0, cl...)
				R.Report(rt, name, c, vs)
			})
		})
	}
}
