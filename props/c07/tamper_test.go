package c07

import (
	"bytes"
	"encoding/hex"
	"flag"
	"fmt"
	"sort"
	"strings"
	"testing"

	"pgregory.net/rapid"

	"verif/internal/hx"
	"verif/internal/kshist"
)

// Point is one single-byte modification of one stored object.
type Point struct {
	Obj  int `json:"obj"`  // index into the sorted list of stored objects (mod its length)
	Pos  int `json:"pos"`  // byte position (mod the object's length)
	Mask int `json:"mask"` // 1..255, xor-ed into the byte
	// Kind "" = xor one byte; "append" = Tail is appended to the object; "truncate" = the last Pos%16+1 bytes are cut off;
	// "insert" = Tail is inserted at Pos
	Kind string `json:"kind,omitempty"`
	Tail string `json:"tail,omitempty"` // hex
}

// TamperCase: a keystore and a list of single-byte modifications, each applied alone and undone.
type TamperCase struct {
	Format string   `json:"format"` // v1 | v2/mem | v2/dir
	IDs    []string `json:"ids"`
	Rot    int      `json:"rot"`
	Points []Point  `json:"points,omitempty"`
	// Sweep: every byte position of object Obj is modified (mask from a generated sequence); thorough tier.
	Sweep *Point `json:"sweep,omitempty"`
}

func genPoint(t *rapid.T) Point {
	p := Point{Obj: rapid.IntRange(0, 63).Draw(t, "obj")}
	// positions: anywhere, or near the start / the end (headers, signature at the end of a v2 ring)
	switch rapid.IntRange(0, 3).Draw(t, "where") {
	case 0:
		p.Pos = rapid.IntRange(0, 15).Draw(t, "pos.head")
	case 1:
		p.Pos = -1 - rapid.IntRange(0, 63).Draw(t, "pos.tail")
	default:
		p.Pos = rapid.IntRange(0, 4095).Draw(t, "pos")
	}
	// single-bit flips and whole-byte changes
	if rapid.Bool().Draw(t, "bit") {
		p.Mask = 1 << rapid.IntRange(0, 7).Draw(t, "bitno")
	} else {
		p.Mask = rapid.IntRange(1, 255).Draw(t, "mask")
	}
	// one modification in five changes the length of the object: bytes appended (white space, NUL, a copy of the
	// object's own tail, arbitrary bytes), inserted, or the end cut off
	switch rapid.IntRange(0, 9).Draw(t, "kind") {
	case 0:
		p.Kind = "append"
		p.Tail = hex.EncodeToString(rapid.SampledFrom([][]byte{{'\n'}, {'\r', '\n'}, {' '}, {'\t'}, {0}, {' ', '\n', ' '}, {'x'}, {0xff}, {'\n', 'x'}, {0x30, 0x00}}).Draw(t, "tail"))
	case 1:
		p.Kind = "truncate"
	case 2:
		p.Kind = "insert"
		p.Tail = hex.EncodeToString(rapid.SampledFrom([][]byte{{'\n'}, {' '}, {0}, {0xff}}).Draw(t, "ins"))
	}
	return p
}

func genTamperCase(t *rapid.T) TamperCase {
	c := TamperCase{
		Format: rapid.SampledFrom([]string{"v1", "v2/mem", "v2/mem", "v2/dir"}).Draw(t, "format"),
		IDs:    rapid.SliceOfNDistinct(rapid.SampledFrom(idPool), 1, 2, rapid.ID[string]).Draw(t, "ids"),
		Rot:    rapid.IntRange(0, 2).Draw(t, "rot"),
	}
	if hx.Tier() == "thorough" && rapid.IntRange(0, 3).Draw(t, "sweep") == 0 {
		p := genPoint(t)
		c.Sweep = &p
		return c
	}
	n := rapid.IntRange(16, 32).Draw(t, "npoints")
	for i := 0; i < n; i++ {
		c.Points = append(c.Points, genPoint(t))
	}
	return c
}

type tamperInfo struct {
	points  int
	classes map[string]int
}

// CheckTamper applies every modification alone, reads the key the object belongs to through every
// reader of the API, and restores the object. v2 key rings: every read must fail. v1 key files: a
// read may fail or must return only values the key offered before (never a different key).
func CheckTamper(c TamperCase) (hx.Vs, *tamperInfo) {
	var vs hx.Vs
	info := &tamperInfo{classes: map[string]int{}}
	rots := make([]int, len(c.IDs))
	for i := range rots {
		rots[i] = c.Rot
	}
	st, err := buildStore(c.Format, c.IDs, rots, c.Rot)
	if err != nil {
		vs.Add("harness:build", "%s: %v", c.Format, errs(err))
		return vs, info
	}
	defer st.close()
	ks := st.fx.KS()
	orig := map[kshist.K]offered{}
	for _, k := range st.keys {
		o := read(ks, k)
		if len(o.Errs) > 0 {
			vs.Add("harness:unreadable", "%s: %s is unreadable before any modification: %v", c.Format, k, o.Errs)
			return vs, info
		}
		orig[k] = o
	}
	objs := st.objects()
	if len(objs) == 0 {
		vs.Add("harness:objects", "%s: no stored objects", c.Format)
		return vs, info
	}
	points := c.Points
	if c.Sweep != nil {
		o := objs[c.Sweep.Obj%len(objs)]
		d, _ := st.get(o.Name)
		m := c.Sweep.Mask
		for pos := range d {
			m = (m*37+11)%255 + 1
			points = append(points, Point{Obj: c.Sweep.Obj, Pos: pos, Mask: m})
		}
	}
	format := strings.SplitN(c.Format, "/", 2)[0]
	seen := map[string]bool{}
	for _, p := range points {
		o := objs[p.Obj%len(objs)]
		d, err := st.get(o.Name)
		if err != nil || len(d) == 0 {
			vs.Add("harness:get", "%s: %v (%d bytes)", o.Name, errs(err), len(d))
			return vs, info
		}
		pos := p.Pos % len(d)
		if pos < 0 {
			pos += len(d)
		}
		mask := byte(p.Mask)
		if mask == 0 {
			mask = 1
		}
		mod := cp(d)
		tail, _ := hex.DecodeString(p.Tail)
		switch p.Kind {
		case "append":
			mod = append(mod, tail...)
			pos = len(d)
		case "truncate":
			cut := pos%16 + 1
			if cut >= len(mod) {
				cut = len(mod) - 1
			}
			mod = mod[:len(mod)-cut]
			pos = len(mod)
		case "insert":
			mod = append(append(cp(d[:pos]), tail...), d[pos:]...)
		default:
			mod[pos] ^= mask
		}
		if bytes.Equal(mod, d) {
			continue
		}
		if err := st.put(o.Name, mod); err != nil {
			vs.Add("harness:put", "%s: %v", o.Name, errs(err))
			return vs, info
		}
		info.points++
		if p.Kind != "" {
			info.classes["edit:"+p.Kind]++
		}
		cls := "object:" + format + "/" + o.kindPart()
		if o.Hist {
			cls += "(old)"
		}
		info.classes[cls]++
		var got offered
		panicked := hx.Guard(&vs, "read-after-modification/"+format, func() { got = read(ks, o.K) })
		if format == "v2" && !panicked {
			// opening the ring itself must fail as well
			if opener, ok := ks.(v2Store); ok {
				hx.Guard(&vs, "open-after-modification/v2", func() {
					if _, oerr := opener.OpenKeyRing(strings.TrimSuffix(o.Name, ".keyring")); oerr == nil {
						got.OK = append(got.OK, "OpenKeyRing")
					}
				})
			}
		}
		if rerr := st.put(o.Name, d); rerr != nil {
			vs.Add("harness:restore", "%v", errs(rerr))
			return vs, info
		}
		if panicked {
			return vs, info
		}
		was := orig[o.K]
		var sig, what string
		switch {
		case format == "v2":
			if len(got.OK) > 0 {
				sig = "v2-ring-modification-undetected:" + o.K.Kind
				what = fmt.Sprintf("these reads of %s still succeed: %v", o.K, got.OK)
			}
		case o.Part == "pub":
			for _, v := range got.Publics {
				if !was.hasPublic(v) {
					sig = "v1-public-key-unauthenticated:tamper"
					what = fmt.Sprintf("the public key of %s is returned without error and differs from the stored one", o.K)
				}
			}
		default:
			for _, v := range got.Secrets {
				if !was.hasSecret(v) {
					sig = "v1-key-file-modification-yields-different-key:" + o.K.Kind
					what = fmt.Sprintf("a read of %s returns a key it never held (successful reads: %v)", o.K, got.OK)
				}
			}
			// detected when it is read: a reader either fails or is not affected at all (it does not read this
			// file); a reader that succeeds with fewer keys than before has skipped the modified file silently
			if sig == "" {
				for _, name := range sortedKeys(got.By) {
					if before, ok := was.By[name]; ok && !sameValues(before, got.By[name]) {
						sig = "v1-key-file-modification-silently-skipped:" + o.K.Kind
						what = fmt.Sprintf("%s succeeds for %s and returns %d keys instead of %d", name, o.K, len(got.By[name]), len(before))
						break
					}
				}
			}
		}
		if len(got.OK) == 0 {
			info.classes["outcome:all-reads-fail"]++
		} else if sig == "" {
			info.classes["outcome:reads-return-original-values"]++
		}
		if sig == "" || seen[sig] {
			continue
		}
		seen[sig] = true
		how := fmt.Sprintf("xor 0x%02x", mask)
		if p.Kind != "" {
			how = fmt.Sprintf("%s %q", p.Kind, tail)
		}
		vs.Add(sig, "%s: byte %d of %d of stored object %s (%s) %s: %s", c.Format, pos, len(d), o, o.Name, how, what)
	}
	// the store must be intact again (harness self-check)
	for _, k := range st.keys {
		o := read(ks, k)
		w := orig[k]
		if len(o.Errs) > 0 || len(o.Secrets) != len(w.Secrets) || (len(o.Secrets) > 0 && !bytes.Equal(o.Secrets[0], w.Secrets[0])) {
			vs.Add("harness:not-restored", "%s: %s differs after all modifications were undone: %v", c.Format, k, o.Errs)
			break
		}
	}
	return vs, info
}

// TestTamper: quick 1 shard x 64 cases x 16-32 points = about 1500 single-byte modifications.
func TestTamper(t *testing.T) {
	const name = "TestTamper"
	R.Rule(name, "keystore of either format with 1-2 client ids, all six key kinds, 0-2 rotations; 16-32 single-byte modifications (object generated among all stored objects incl. v1 historical and public key files; position anywhere / near the start / near the end; single-bit flip or arbitrary xor mask), each applied alone and undone; thorough: additionally every byte position of a generated object. Oracle: v2 key ring - every reader of that key fails; v1 key file - every reader fails or returns only values the key offered before. Non-trivial = at least one modification was applied and read back (always)")
	hx.Checks(64, 600)
	flag.Set("rapid.shrinktime", "10s") // cases are small; every evaluation builds a keystore
	rapid.Check(t, func(rt *rapid.T) {
		c := genTamperCase(rt)
		vs, info := CheckTamper(c)
		cl := []string{"format:" + c.Format}
		if c.Sweep != nil {
			cl = append(cl, "sweep")
		}
		for k := range info.classes {
			cl = append(cl, k)
		}
		R.Seen(name, c, info.points > 0, cl...)
		R.Class(name, "points") // bumped once per case; the number of modifications is in the per-object classes
		R.Report(rt, name, c, vs)
	})
}

func sortedKeys(m map[string][][]byte) []string {
	out := make([]string, 0, len(m))
	for k := range m {
		out = append(out, k)
	}
	sort.Strings(out)
	return out
}

func sameValues(a, b [][]byte) bool {
	if len(a) != len(b) {
		return false
	}
	for i := range a {
		if !bytes.Equal(a[i], b[i]) {
			return false
		}
	}
	return true
}
