package c07

import (
	"bytes"
	"encoding/hex"
	"fmt"
	"os"
	"path/filepath"
	"sort"
	"strings"

	"github.com/cossacklabs/themis/gothemis/cell"

	"github.com/cossacklabs/acra/keystore"
	"github.com/cossacklabs/acra/keystore/filesystem"

	"verif/internal/fix"
	"verif/internal/hx"
	"verif/internal/kshist"
)

// The cache clause of the property ("no private or symmetric key reaches the key cache in clear") judged on
// what a cache entry is worth to somebody who sees it, not on its bytes alone: an entry that opens without any
// secret holds its key in clear, whatever it looks like. Two oracles, applied to every distinct cache entry a
// history produced, in whatever state of the handle (new, reopened, reset n times) it was produced:
//
//  (a) no-secret keys: the entry is given to the Secure Cell (the sealing the keystores use for keys) under
//      every key of a family that needs no secret - a buffer filled with one byte value (what is left of a wiped
//      or never filled key buffer) in the usual key sizes, counting patterns, and strings everybody knows (client
//      ids, cache names, purposes, the public keys of the case) raw and padded to key size - with every context
//      the keystore could have used (none, the owner id, the cache name, the fixed context names). One that
//      opens is a violation.
//  (b) unrelated keystore: a second keystore on an empty directory with another master key and the same cache
//      size, taken through the same cache life cycle (as many Reset calls as the handle had seen when it made
//      the entry), gets the entry planted in its cache under the same name (KeyStore.Add); reading that key
//      through its API must fail as it failed before planting. It shares no secret with the keystore under
//      test, so a key it returns was readable from the cache entry alone.

// cacheState is the life-cycle state of the handle under test when a cache entry was first seen.
type cacheState struct {
	Handle int // number of reopen operations applied so far (0 = the first handle)
	Resets int // Reset calls on that handle so far
}

func (s cacheState) class() string {
	switch {
	case s.Resets == 0 && s.Handle == 0:
		return "new"
	case s.Resets == 0:
		return "reopened"
	case s.Resets == 1:
		return "reset-once"
	}
	return "reset-again"
}

// stateAfter computes the state after the first n operations of the history.
func stateAfter(ops []kshist.Op, n int) cacheState {
	var s cacheState
	for i := 0; i < n && i < len(ops); i++ {
		switch ops[i].Kind {
		case kshist.OpReopen:
			s.Handle++
			s.Resets = 0
		case kshist.OpReset:
			s.Resets++
		}
	}
	return s
}

// cachedEntry is one distinct (name, value) pair seen in the v1 key cache.
type cachedEntry struct {
	step  int // first seen after this many operations had been applied
	name  string
	val   []byte
	state cacheState
}

// entryKey tells which key a cache name stands for: the name is a key file name relative to the key directory
// (current: "alice_storage"; rotated: "alice_storage.old/<time>") or the full path of a public key file.
func entryKey(fx kshist.Fixture, name string) (k kshist.K, part string, hist bool, ok bool) {
	id := name
	if d := filepath.Dir(name); strings.HasSuffix(d, ".old") {
		hist = true
		id = strings.TrimSuffix(d, ".old")
	}
	id = filepath.Base(id)
	k, part, ok = fx.Classify(keystore.KeyDescription{KeyID: id})
	return
}

type noSecretKey struct {
	class string
	key   []byte
}

// wipedKeys: a buffer filled with 0x00 or 0xff in the usual key sizes, and counting patterns.
var wipedKeys = func() []noSecretKey {
	var out []noSecretKey
	for _, n := range []int{keystore.SymmetricKeyLength, 1, 8, 16, 24, 48, 64} {
		for _, b := range []byte{0x00, 0xff} {
			out = append(out, noSecretKey{"constant-byte-key", bytes.Repeat([]byte{b}, n)})
		}
	}
	for _, start := range []int{0, 1} {
		k := make([]byte, keystore.SymmetricKeyLength)
		for i := range k {
			k[i] = byte(start + i)
		}
		out = append(out, noSecretKey{"counting-key", k})
	}
	return out
}()

// filledKeys: a key-sized buffer filled with any other byte value. Tried on the first entry of every state of
// the handle only (entries of one state are sealed with one key), with no context and the owner's.
var filledKeys = func() []noSecretKey {
	var out []noSecretKey
	for b := 1; b < 255; b++ {
		out = append(out, noSecretKey{"constant-byte-key", bytes.Repeat([]byte{byte(b)}, keystore.SymmetricKeyLength)})
	}
	return out
}()

// noSecretKeys is the family of oracle (a) for one cache entry.
func noSecretKeys(c SecretsCase, name string, k kshist.K, publics []secret) []noSecretKey {
	out := append([]noSecretKey(nil), wipedKeys...)
	seen := map[string]bool{}
	str := func(class string, s []byte) {
		if len(s) == 0 || seen[string(s)] {
			return
		}
		seen[string(s)] = true
		out = append(out, noSecretKey{class, s})
		if len(s) < keystore.SymmetricKeyLength {
			p := make([]byte, keystore.SymmetricKeyLength)
			copy(p, s)
			out = append(out, noSecretKey{class + "-padded", p})
		}
	}
	for _, id := range c.IDs {
		str("public-string-key", []byte(id))
	}
	str("public-string-key", []byte(name))
	str("public-string-key", []byte(filepath.Base(name)))
	str("public-string-key", []byte(k.Kind))
	for _, s := range fixedContexts {
		str("public-string-key", []byte(s))
	}
	for _, p := range publics {
		str("public-key-as-key", p.val)
	}
	return out
}

// fixedContexts are the context names of the keys that belong to nobody.
var fixedContexts = []string{filesystem.PoisonKeyFilename, filesystem.PoisonKeyFilename + "_sym", filesystem.SecureLogKeyFilename}

// contextsFor lists the contexts an entry could have been sealed with.
func contextsFor(name string, k kshist.K) [][]byte {
	out := [][]byte{nil}
	seen := map[string]bool{}
	add := func(s string) {
		if s != "" && !seen[s] {
			seen[s] = true
			out = append(out, []byte(s))
		}
	}
	// second place: the context today's keystore uses (the owner id, or the name of the current key file for
	// the keys that belong to nobody)
	add(k.ID)
	current := name
	if d := filepath.Dir(name); strings.HasSuffix(d, ".old") {
		current = strings.TrimSuffix(d, ".old")
	}
	add(current)
	add(name)
	add(filepath.Base(current))
	add(filepath.Base(name))
	for _, s := range fixedContexts {
		add(s)
	}
	return out
}

// openWithoutSecret is oracle (a) for one entry.
func openWithoutSecret(c SecretsCase, e cachedEntry, k kshist.K, publics []secret, firstOfState bool) (desc string, opened []byte, class string, ok bool) {
	if len(e.val) < cell.HeaderLen {
		return "", nil, "", false
	}
	try := func(keys []noSecretKey, ctxs [][]byte) bool {
		for _, nk := range keys {
			sc := cell.New(nk.key, cell.ModeSeal)
			for _, ctx := range ctxs {
				if pt, err := sc.Unprotect(e.val, nil, ctx); err == nil {
					desc = fmt.Sprintf("key %s (%d bytes, %s), context %q", shortHex(nk.key), len(nk.key), nk.class, ctx)
					opened, class, ok = pt, nk.class, true
					return true
				}
			}
		}
		return false
	}
	ctxs := contextsFor(e.name, k)
	if try(noSecretKeys(c, e.name, k, publics), ctxs) {
		return
	}
	if firstOfState {
		try(filledKeys, ctxs[:2]) // none, and the owner id (or the cache name for the keys that belong to nobody)
	}
	return
}

func shortHex(b []byte) string {
	if len(b) > 8 {
		return hex.EncodeToString(b[:8]) + "..."
	}
	return hex.EncodeToString(b)
}

// strangerMasterKey is the master key of the unrelated keystore of oracle (b); it differs from fix.MasterKey.
var strangerMasterKey = []byte("c07-unrelated-keystore-master-k.")

// stranger is the unrelated keystore of oracle (b).
type stranger struct {
	ks     *filesystem.KeyStore
	dir    string
	resets int
}

func newStranger(cacheSize int) (*stranger, error) {
	if bytes.Equal(strangerMasterKey, fix.MasterKey) || len(strangerMasterKey) != keystore.SymmetricKeyLength {
		return nil, fmt.Errorf("the unrelated keystore needs a master key of its own")
	}
	enc, err := keystore.NewSCellKeyEncryptor(strangerMasterKey)
	if err != nil {
		return nil, err
	}
	dir := fix.TempDir("c07-other-")
	ks, err := filesystem.NewCustomFilesystemKeyStore().KeyDirectory(dir).Encryptor(enc).CacheSize(cacheSize).Build()
	if err != nil {
		os.RemoveAll(dir)
		return nil, err
	}
	return &stranger{ks: ks, dir: dir}, nil
}

func (s *stranger) close() { os.RemoveAll(s.dir) }

// read reads the current key of k through the API of the unrelated keystore.
func (s *stranger) read(k kshist.K) (val []byte, err error) {
	ks := s.ks
	switch k.Kind {
	case kshist.StoragePair:
		priv, e := ks.GetServerDecryptionPrivateKey([]byte(k.ID))
		if e != nil {
			return nil, e
		}
		return priv.Value, nil
	case kshist.StorageSym:
		return ks.GetClientIDSymmetricKey([]byte(k.ID))
	case kshist.HMAC:
		return ks.GetHMACSecretKey([]byte(k.ID))
	case kshist.PoisonPair:
		kp, e := ks.GetPoisonKeyPair()
		if e != nil {
			return nil, e
		}
		return kp.Private.Value, nil
	case kshist.PoisonSym:
		return ks.GetPoisonSymmetricKey()
	case kshist.AuditLog:
		return ks.GetLogSecretKey()
	}
	return nil, fmt.Errorf("unknown key kind %q", k.Kind)
}

// cacheKeyInfo is what the two oracles covered in one case.
type cacheKeyInfo struct {
	classes []string
}

// checkCacheKeys applies both oracles to the cache entries of one history. secrets are the key values learnt
// through the API (to name what an opened entry held), publics the public keys (stored in the cache as they are).
func checkCacheKeys(vs *hx.Vs, c SecretsCase, fx *capFixture, entries []cachedEntry, secrets, publics []secret) (info cacheKeyInfo) {
	defer func() { // one count per class and case
		seen := map[string]bool{}
		var out []string
		for _, cl := range info.classes {
			if !seen[cl] {
				seen[cl] = true
				out = append(out, cl)
			}
		}
		info.classes = out
	}()
	format := fx.Format()
	isPublic := func(v []byte) bool {
		for _, p := range publics {
			if bytes.Equal(p.val, v) {
				return true
			}
		}
		return false
	}
	holds := func(pt []byte) string {
		for _, s := range secrets {
			if bytes.Equal(s.val, pt) {
				return "the key " + s.label
			}
		}
		return fmt.Sprintf("%d bytes that no read of the history returned (a key that was generated and not read)", len(pt))
	}
	type target struct {
		e cachedEntry
		k kshist.K
	}
	var sealed []target
	statesTried := map[cacheState]bool{}
	opensWithoutSecret := false
	for _, e := range entries {
		k, part, hist, ok := entryKey(fx, e.name)
		if !ok || part == "pub" || isPublic(e.val) {
			continue // public keys are cached as they are stored: in clear, by design
		}
		info.classes = append(info.classes, "cache-key:entry-made-by-"+e.state.class()+"-handle")
		// (a); after the first entry that opens the search goes on with (b) only
		if !opensWithoutSecret {
			first := !statesTried[e.state]
			statesTried[e.state] = true
			if desc, pt, class, opened := openWithoutSecret(c, e, k, publics, first); opened {
				opensWithoutSecret = true
				vs.Add("cache-entry-opens-without-secret:"+class+"@"+format, "%s: the cache entry %q (%d bytes, first seen after %d operations, handle #%d after %d Reset) opens as a Secure Cell with %s and holds %s: the cached key is not protected by any secret",
					c.Fixture, clean(e.name), len(e.val), e.step, e.state.Handle, e.state.Resets, desc, holds(pt))
			} else {
				info.classes = append(info.classes, "cache-key:no-secret-keys-tried")
			}
		}
		if !hist {
			sealed = append(sealed, target{e, k})
		}
	}
	if len(sealed) == 0 {
		return info
	}
	// (b) entries in the order of the number of Reset calls behind them; one unrelated keystore per case
	sort.SliceStable(sealed, func(i, j int) bool { return sealed[i].e.state.Resets < sealed[j].e.state.Resets })
	size := kshist.CacheSize(strings.TrimPrefix(c.Fixture, "v1/cache="))
	other, err := newStranger(size)
	if err != nil {
		vs.Add("harness:unrelated-keystore", "%s: cannot make the unrelated keystore: %v", c.Fixture, errs(err))
		return info
	}
	defer other.close()
	// the public halves seen in the cache, by name: a pair is read from the cache only when both halves are there
	pubByName := map[string][]byte{}
	for _, e := range entries {
		if strings.HasSuffix(e.name, ".pub") {
			pubByName[e.name] = e.val
		}
	}
	for _, t := range sealed {
		for other.resets < t.e.state.Resets {
			other.ks.Reset()
			other.resets++
		}
		var after []byte
		var errBefore, errAfter error
		if hx.Guard(vs, "unrelated-keystore-read/"+t.k.Kind, func() { _, errBefore = other.read(t.k) }) {
			return info
		}
		if errBefore == nil {
			// the unrelated keystore has such a key of its own (none of today's readers makes one): nothing to learn
			info.classes = append(info.classes, "cache-key:unrelated-keystore-has-own-"+t.k.Kind)
			continue
		}
		if pub, ok := pubByName[t.e.name+".pub"]; ok && size != 1 {
			other.ks.Add(t.e.name+".pub", pub)
		}
		other.ks.Add(t.e.name, t.e.val)
		if hx.Guard(vs, "unrelated-keystore-read/"+t.k.Kind, func() { after, errAfter = other.read(t.k) }) {
			return info
		}
		if errAfter == nil {
			vs.Add("cache-entry-readable-by-unrelated-keystore:"+t.k.Kind+"@"+format, "%s: the cache entry %q (first seen after %d operations, handle #%d after %d Reset) was put into the cache of a keystore with another master key on an empty directory (cache size %d, %d Reset): reading %s there failed with %q before and now returns %s: the cached key is not protected by a secret of the keystore that cached it",
				c.Fixture, clean(t.e.name), t.e.step, t.e.state.Handle, t.e.state.Resets, size, other.resets, t.k, errs(errBefore), holds(after))
			return info
		}
		info.classes = append(info.classes, "cache-key:unrelated-keystore-refused-entry-of-"+t.e.state.class()+"-handle")
		if errs(errAfter) != errs(errBefore) {
			// control: the planted entry was looked at (the error is no longer "no such key")
			info.classes = append(info.classes, "control:planted-entry-consulted")
		}
		// leave nothing behind for the next entry
		other.ks.Add(t.e.name, nil)
		other.ks.Add(t.e.name+".pub", nil)
	}
	return info
}
