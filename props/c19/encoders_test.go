package c19

import (
	"bytes"
	"context"
	"encoding/binary"
	"errors"
	"fmt"
	"strconv"
	"sync"
	"testing"

	"pgregory.net/rapid"

	"github.com/cossacklabs/acra/decryptor/base"
	"github.com/cossacklabs/acra/decryptor/mysql"
	"github.com/cossacklabs/acra/decryptor/postgresql"
	encryptor "github.com/cossacklabs/acra/encryptor/base"
	"github.com/cossacklabs/acra/encryptor/base/config"

	"verif/internal/fix"
	"verif/internal/gen"
	"verif/internal/hx"
	"verif/internal/pgprog"
	"verif/internal/pgsess"
)

// ECase drives the decode-before / encode-after subscribers of one database around a simulated reveal step.
type ECase struct {
	DB         string  `json:"db"`        // pg | mysql
	DataType   string  `json:"data_type"` // str | bytes | int32 | int64
	ByTypeID   bool    `json:"by_type_id,omitempty"`
	OnFail     string  `json:"on_fail,omitempty"` // "", ciphertext, default_value, error
	Default    string  `json:"default,omitempty"`
	HasDefault bool    `json:"has_default,omitempty"`
	Binary     bool    `json:"binary,omitempty"`
	Blob       gen.Hex `json:"blob"`             // the stored protected bytes (never a decimal number)
	Revealed   bool    `json:"revealed"`         // the reveal step succeeded
	Flag       string  `json:"flag,omitempty"`   // not revealed: "unset" | "not-decrypted" (what the chain leaves in the context)
	Plain      gen.Hex `json:"plain,omitempty"`  // revealed: the plaintext handed to the encoder
	Direct     bool    `json:"direct,omitempty"` // call the encoder without the decoder in front of it
}

var (
	pgIDs    = map[string]uint32{"str": 25, "bytes": 17, "int32": 23, "int64": 20}
	mysqlIDs = map[string]uint32{"str": 254, "bytes": 252, "int32": 3, "int64": 8}
)

const mysqlBlob = 252

func (c ECase) yaml() string {
	y := "schemas:\n  - table: t\n    columns:\n      - c\n    encrypted:\n      - column: c\n"
	if c.ByTypeID {
		ids := pgIDs
		if c.DB == "mysql" {
			ids = mysqlIDs
		}
		y += fmt.Sprintf("        data_type_db_identifier: %d\n", ids[c.DataType])
	} else {
		y += "        data_type: " + c.DataType + "\n"
	}
	if c.OnFail != "" {
		y += "        response_on_fail: " + c.OnFail + "\n"
	}
	if c.HasDefault {
		y += "        default_data_value: " + strconv.Quote(c.Default) + "\n"
	}
	return y
}

var (
	settingMu    sync.Mutex
	settingCache = map[string]config.ColumnEncryptionSetting{}
)

func (c ECase) setting() (config.ColumnEncryptionSetting, error) {
	key := c.DB + "\n" + c.yaml()
	settingMu.Lock()
	defer settingMu.Unlock()
	if s, ok := settingCache[key]; ok {
		return s, nil
	}
	store, err := config.MapTableSchemaStoreFromConfig([]byte(c.yaml()), c.DB == "mysql")
	if err != nil {
		return nil, err
	}
	ts := store.GetTableSchema("t")
	if ts == nil {
		return nil, errors.New("no table schema")
	}
	s := ts.GetColumnEncryptionSettings("c")
	if s == nil {
		return nil, errors.New("no column setting")
	}
	settingCache[key] = s
	return s, nil
}

// genBlob: bytes as a stored protected value looks like - never parseable as a decimal number and, like every
// AcraStruct / AcraBlock, much longer than the 4 / 8 bytes the integer decoders take for a binary integer.
func genBlob(t *rapid.T) gen.Hex {
	head := rapid.SampledFrom([][]byte{[]byte("%%%"), {0x80}, {0x00}, {0x7f, 0x01}, []byte(`"""""""""`), []byte(`\x`), []byte("-"), []byte("12a"), {0xff, 0xfe}}).Draw(t, "blob.head")
	tail := rapid.SliceOfN(rapid.Byte(), 16, 48).Draw(t, "blob.tail")
	return append(append(gen.Hex{}, head...), tail...)
}

func genPlain(t *rapid.T, dt string) gen.Hex {
	switch dt {
	case "int32":
		return gen.Hex(rapid.OneOf(
			rapid.Map(rapid.Int32(), func(n int32) string { return strconv.FormatInt(int64(n), 10) }),
			rapid.SampledFrom([]string{"0", "1", "-1", "2147483647", "-2147483648", "-128", "255", "65536"}),
			// not an int32: out of the property's domain, must not panic
			rapid.SampledFrom([]string{"2147483648", "-2147483649", "abc", "12x", " 1", "1e3", "0x10", "9223372036854775808"}),
		).Draw(t, "plain.i4"))
	case "int64":
		return gen.Hex(rapid.OneOf(
			rapid.Map(rapid.Int64(), func(n int64) string { return strconv.FormatInt(n, 10) }),
			rapid.SampledFrom([]string{"0", "1", "-1", "9223372036854775807", "-9223372036854775808", "2147483648", "-2147483649", "4294967296"}),
			rapid.SampledFrom([]string{"9223372036854775808", "-9223372036854775809", "abc", "12x", " 1", "1e3"}),
		).Draw(t, "plain.i8"))
	case "str":
		return gen.Hex(rapid.SampledFrom([]string{"plain", "ünï-код", "it's", `back\slash`, `\x41`, "12", "%%%", " ", "\n"}).Draw(t, "plain.str") + rapid.StringMatching(`[a-z0-9]{0,12}`).Draw(t, "plain.tail"))
	}
	return gen.Hex(rapid.SliceOfN(rapid.Byte(), 1, 40).Draw(t, "plain.bytes"))
}

func genEncoderCase(t *rapid.T) ECase {
	c := ECase{DB: rapid.SampledFrom([]string{"pg", "mysql"}).Draw(t, "db"),
		DataType: rapid.SampledFrom([]string{"str", "bytes", "int32", "int64"}).Draw(t, "type"),
		ByTypeID: rapid.Bool().Draw(t, "byid"),
		OnFail:   rapid.SampledFrom([]string{"", "ciphertext", "default_value", "default_value", "error", "error"}).Draw(t, "policy"),
		Binary:   rapid.Bool().Draw(t, "binary"),
		Blob:     genBlob(t),
		Revealed: rapid.Bool().Draw(t, "revealed"),
		Direct:   rapid.IntRange(0, 3).Draw(t, "direct") == 0,
	}
	if c.OnFail == "default_value" {
		c.HasDefault = true
		c.Default = rapid.SampledFrom(defaultsOf[c.DataType]).Draw(t, "default")
	}
	if c.Revealed {
		if rapid.IntRange(0, 11).Draw(t, "emptyplain") == 0 {
			c.Plain = gen.Hex{}
		} else {
			c.Plain = genPlain(t, c.DataType)
		}
	} else {
		c.Flag = rapid.SampledFrom([]string{"unset", "not-decrypted"}).Draw(t, "flag")
	}
	return c
}

func lenenc(b []byte) []byte {
	n := uint64(len(b))
	var out []byte
	switch {
	case n < 251:
		out = []byte{byte(n)}
	case n < 1<<16:
		out = []byte{0xfc, byte(n), byte(n >> 8)}
	case n < 1<<24:
		out = []byte{0xfd, byte(n), byte(n >> 8), byte(n >> 16)}
	default:
		out = make([]byte, 9)
		out[0] = 0xfe
		binary.LittleEndian.PutUint64(out[1:], n)
	}
	return append(out, b...)
}

func unlenenc(b []byte) ([]byte, bool) {
	if len(b) == 0 {
		return nil, false
	}
	var n, off int
	switch {
	case b[0] < 251:
		n, off = int(b[0]), 1
	case b[0] == 0xfc && len(b) >= 3:
		n, off = int(binary.LittleEndian.Uint16(b[1:])), 3
	case b[0] == 0xfd && len(b) >= 4:
		n, off = int(b[1])|int(b[2])<<8|int(b[3])<<16, 4
	default:
		return nil, false
	}
	if len(b) != off+n {
		return nil, false
	}
	return b[off:], true
}

// parseAs interprets plain as a value of the declared type; ok=false: not a value of that type.
func parseInt(plain []byte, dt string) (int64, bool) {
	bits := 32
	if dt == "int64" {
		bits = 64
	}
	n, err := strconv.ParseInt(string(plain), 10, bits)
	// only canonical decimals are in the domain (the proxy stores what the client wrote; clients write canonical integers)
	return n, err == nil && strconv.FormatInt(n, 10) == string(plain)
}

// decodeWire: the client's view of one column value of the declared type in the given format.
// Returns the logical value (ints as canonical decimal).
func decodeWire(db, dt string, binaryFmt bool, out []byte) ([]byte, error) {
	if db == "pg" {
		f := int16(0)
		if binaryFmt {
			f = 1
		}
		v, _, err := pgprog.Decode(out, pgIDs[dt], f)
		if err != nil {
			return nil, err
		}
		if v.Null {
			return nil, errors.New("NULL")
		}
		return v.B, nil
	}
	if binaryFmt && (dt == "int32" || dt == "int64") {
		if dt == "int32" {
			if len(out) != 4 {
				return nil, fmt.Errorf("binary LONG of %d bytes", len(out))
			}
			return []byte(strconv.FormatInt(int64(int32(binary.LittleEndian.Uint32(out))), 10)), nil
		}
		if len(out) != 8 {
			return nil, fmt.Errorf("binary LONGLONG of %d bytes", len(out))
		}
		return []byte(strconv.FormatInt(int64(binary.LittleEndian.Uint64(out)), 10)), nil
	}
	payload, ok := unlenenc(out)
	if !ok {
		return nil, fmt.Errorf("not one length-encoded string: %.40q", out)
	}
	if dt == "int32" || dt == "int64" {
		bits := 32
		if dt == "int64" {
			bits = 64
		}
		n, err := strconv.ParseInt(string(payload), 10, bits)
		if err != nil {
			return nil, fmt.Errorf("not a decimal %s: %.40q", dt, payload)
		}
		return []byte(strconv.FormatInt(n, 10)), nil
	}
	return payload, nil
}

// CheckEncoder evaluates one component case.
func CheckEncoder(c ECase) (hx.Vs, []string) {
	fix.Quiet()
	var vs hx.Vs
	var classes []string
	setting, err := c.setting()
	if err != nil {
		vs.Add("harness:setting", "%v\n%s", err, c.yaml())
		return vs, nil
	}
	policy := policyClass(c.OnFail)
	fn := "text"
	if c.Binary {
		fn = "binary"
	}
	tn := c.DataType
	if c.ByTypeID {
		tn += "#id"
	}
	// what the database sends for the stored bytes (column of type bytea / blob)
	wire := []byte(c.Blob)
	if c.DB == "pg" && !c.Binary {
		wire = pgsess.Encode(pgsess.Value{B: c.Blob}, pgsess.Bytea, 0)
	}
	ids := pgIDs
	origin := byte(0)
	dataType := byte(0)
	if c.DB == "mysql" {
		ids = mysqlIDs
		origin = mysqlBlob
		dataType = byte(mysqlIDs[c.DataType])
	}
	if got := setting.GetDBDataTypeID(); got != ids[c.DataType] {
		vs.Add("config-type-id:"+c.DB+":"+tn, "setting %s for %s has database type id %d, want %d", tn, c.DB, got, ids[c.DataType])
		return vs, nil
	}
	ac := base.NewAccessContext(base.WithClientID([]byte("alice")))
	ac.SetColumnInfo(base.NewColumnInfo(0, "", c.Binary, len(wire), dataType, origin))
	ctx := base.SetAccessContextToContext(context.Background(), ac)
	ctx = encryptor.NewContextWithEncryptionSetting(ctx, setting)

	var dec, enc base.DecryptionSubscriber
	if c.DB == "pg" {
		d, err1 := postgresql.NewPgSQLDataDecoderProcessor()
		e, err2 := postgresql.NewPgSQLDataEncoderProcessor()
		if err1 != nil || err2 != nil {
			vs.Add("harness:processors", "%v %v", err1, err2)
			return vs, nil
		}
		dec, enc = d, e
	} else {
		dec, enc = mysql.NewDataDecoderProcessor(), mysql.NewDataEncoderProcessor()
	}
	site := c.DB + ":" + tn + ":" + fn

	data := []byte(c.Blob)
	if !c.Direct {
		var derr error
		var dctx context.Context
		if hx.Guard(&vs, c.DB+"-decoder", func() { dctx, data, derr = dec.OnColumn(ctx, wire) }) {
			return vs, nil
		}
		if derr != nil {
			vs.Add("decoder-error:"+site, "decoder failed on what the database sends for a protected value: %v (%.60q)", derr, wire)
			return vs, nil
		}
		if dctx == nil {
			vs.Add("decoder-nil-context:"+site, "decoder returned a nil context")
			return vs, nil
		}
		ctx = dctx
		// the reveal step must see the stored bytes
		if !bytes.Equal(data, c.Blob) {
			vs.Add("decoder-changed-protected-bytes:"+site, "decoder turned %.60q into %.60q, the stored bytes are %.60q", wire, data, []byte(c.Blob))
			return vs, nil
		}
		classes = append(classes, "chain:decoder+encoder")
	} else {
		classes = append(classes, "chain:encoder-only")
	}
	classes = append(classes, "db:"+c.DB, "type:"+c.DataType, "policy:"+policy, "fmt:"+fn)
	if c.ByTypeID {
		classes = append(classes, "declared-by:type-id")
	}
	if c.Revealed {
		ctx = base.MarkDecryptedContext(ctx)
		data = []byte(c.Plain)
	} else if c.Flag == "not-decrypted" {
		ctx = base.MarkNotDecryptedContext(ctx)
	}
	var out []byte
	var octx context.Context
	var eerr error
	if hx.Guard(&vs, c.DB+"-encoder", func() { octx, out, eerr = enc.OnColumn(ctx, data) }) {
		return vs, classes
	}
	converted := octx != nil && base.IsErrorConvertedDataTypeFromContext(octx)

	if c.Revealed {
		isInt := c.DataType == "int32" || c.DataType == "int64"
		if len(c.Plain) == 0 {
			classes = append(classes, "revealed:empty")
			want := []byte{}
			if c.DB == "mysql" {
				want = []byte{0}
			}
			if eerr != nil || !bytes.Equal(out, want) {
				vs.Add("empty-changed:"+site, "revealed empty value encoded as %.40q (%v)", out, eerr)
			}
			return vs, classes
		}
		wantLogical := []byte(c.Plain)
		if isInt {
			n, ok := parseInt(c.Plain, c.DataType)
			if !ok {
				// the plaintext is not a value of the declared type: outside the property (no panic is all we ask)
				classes = append(classes, "revealed:not-of-declared-type(no-panic only)")
				return vs, classes
			}
			wantLogical = []byte(strconv.FormatInt(n, 10))
			if boundaryInts[string(wantLogical)] {
				classes = append(classes, "value:boundary-int")
			}
			if n < 0 {
				classes = append(classes, "value:negative-int")
			}
		}
		classes = append(classes, "cell:"+c.DB+"/"+c.DataType+"/"+policy+"/"+fn+"/reveal")
		if eerr != nil {
			vs.Add("owner-got-error:"+site, "revealed value %.40q (policy %s): encoder failed: %v", c.Plain, policy, eerr)
			return vs, classes
		}
		got, derr := decodeWire(c.DB, c.DataType, c.Binary, out)
		if derr != nil {
			vs.Add("undecodable-as-declared-type:"+site, "revealed value %.40q encoded as %.40q: %v", c.Plain, out, derr)
			return vs, classes
		}
		if !bytes.Equal(got, wantLogical) {
			dflt, _ := defaultLogical(pgprog.ColSpec{DataType: c.DataType, Default: c.Default})
			if c.HasDefault && bytes.Equal(got, dflt.B) {
				vs.Add("owner-got-default:"+site, "revealed value %.40q came out as the default %.40q", c.Plain, got)
			} else {
				vs.Add("owner-read-differs:"+site, "revealed value %.40q encoded as %.40q = %.40q", c.Plain, out, got)
			}
		}
		if converted {
			vs.Add("type-rollback-on-revealed-value:"+site, "encoder asked to roll the column type back for a revealed value")
		}
		return vs, classes
	}

	classes = append(classes, "cell:"+c.DB+"/"+c.DataType+"/"+policy+"/"+fn+"/cannot-reveal", "flag:"+c.Flag)
	switch policy {
	case "error":
		var ee *base.EncodingError
		if eerr == nil || !errors.As(eerr, &ee) {
			vs.Add("missing-error:"+site, "policy error, value not revealed: encoder returned %.40q, error %v", out, eerr)
			return vs, classes
		}
		if !errors.Is(eerr, base.NewEncodingError("c")) {
			vs.Add("error-names-wrong-column:"+site, "encoding error %q does not name column c", eerr)
		}
		if len(out) != 0 {
			vs.Add("data-with-error:"+site, "encoder returned %.40q together with the encoding error", out)
		}
	case "ciphertext":
		if eerr != nil {
			vs.Add("unexpected-error:"+site, "policy ciphertext: encoder failed: %v", eerr)
			return vs, classes
		}
		if c.DB == "pg" {
			if !(bytes.Equal(out, c.Blob) || !c.Binary && bytes.Equal(out, pgsess.Encode(pgsess.Value{B: c.Blob}, pgsess.Bytea, 0))) {
				vs.Add("ciphertext-policy-changed-bytes:"+site, "stored %.50q came out as %.50q", []byte(c.Blob), out)
			}
		} else {
			if !bytes.Equal(out, lenenc(c.Blob)) {
				vs.Add("ciphertext-policy-changed-bytes:"+site, "stored %.50q came out as %.50q, want it as one length-encoded string", []byte(c.Blob), out)
			}
			if c.DataType != "bytes" && !converted {
				// the column definition was rewritten to the declared type; data of another type needs the roll-back
				vs.Add("ciphertext-without-type-rollback:"+site, "ciphertext returned for a column announced as %s without asking for the type roll-back", c.DataType)
			}
		}
	case "default_value":
		if eerr != nil {
			vs.Add("unexpected-error:"+site, "policy default_value (%q): encoder failed: %v", c.Default, eerr)
			return vs, classes
		}
		dflt, derr := defaultLogical(pgprog.ColSpec{DataType: c.DataType, Default: c.Default})
		if derr != nil {
			vs.Add("harness:default", "%v", derr)
			return vs, classes
		}
		got, derr := decodeWire(c.DB, c.DataType, c.Binary, out)
		if derr != nil || !bytes.Equal(got, dflt.B) {
			vs.Add("default-policy-wrong-value:"+site, "default %q (= %.40q) came out as %.40q (decoded %.40q, %v)", c.Default, dflt.B, out, got, derr)
		}
		if converted {
			vs.Add("type-rollback-with-default:"+site, "encoder asked to roll the column type back although it produced the default of the declared type")
		}
	}
	return vs, classes
}

func TestEncoders(t *testing.T) {
	R.Rule("TestEncoders", "case = database (PostgreSQL|MySQL) x declared type (str|bytes|int32|int64, by name or by database type id, loaded through the real configuration loader) x policy (ciphertext|default_value with a valid default|error) x format (text|binary) x stored protected bytes (never numeric) x reveal outcome: revealed (plaintext = value of the type incl. boundary / negative integers, non-UTF-8 bytes, empty; or a plaintext that is not of the declared type: no-panic only) or not revealed (decrypted flag unset or explicitly not-decrypted). The decoder subscriber is run on what the database sends, the reveal step is simulated on the context exactly as the envelope detector does (MarkDecryptedContext + plaintext), then the encoder subscriber runs. Oracle: decoder hands the stored bytes to the reveal step; revealed => the client-side decoding of the output as the declared type/format is the plaintext (int32 binary = 4 bytes, int64 = 8); not revealed => ciphertext: the stored bytes (MySQL: one length-encoded string plus the type roll-back flag), default: the configured default as the declared type, error: EncodingError naming the column and no data; never a panic")
	hx.Checks(340, 15000)
	rapid.Check(t, func(rt *rapid.T) {
		c := genEncoderCase(rt)
		vs, classes := CheckEncoder(c)
		nt := !c.Revealed || c.Binary
		if c.DataType == "int32" || c.DataType == "int64" {
			if n, ok := parseInt(c.Plain, c.DataType); ok && c.Revealed && boundaryInts[strconv.FormatInt(n, 10)] {
				nt = true
			}
		}
		R.Seen("TestEncoders", c, nt, classes...)
		R.Report(rt, "TestEncoders", c, vs)
	})
}
