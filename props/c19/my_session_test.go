package c19

// TestTypedSessionsMySQL: the MySQL twin of TestTypedSessions. Generated sessions through acra's real MySQL
// proxy (internal/mysess) between a scripted client and the typed fake database.
//
// What MySQL does differently from PostgreSQL, and how the model follows it:
//
//   - declared types are MySQL type ids: str = MYSQL_TYPE_STRING (0xfe), bytes = MYSQL_TYPE_BLOB (0xfc),
//     int32 = MYSQL_TYPE_LONG (0x03), int64 = MYSQL_TYPE_LONGLONG (0x08) (encryptor/base/config/common);
//   - the binary protocol (COM_STMT_EXECUTE) sends integers as 4 / 8 little-endian bytes WITHOUT a length,
//     everything else as length-encoded strings: a row can only be taken apart with the types of its column
//     definitions, so "description and data agree" is a framing matter here, not only a matter of the one cell;
//   - there is one column definition per column and result set, sent before the rows. acra buffers the whole
//     result set, re-types the definitions of columns with a declared type and - policy ciphertext - rolls the
//     type back to what the database sent when a value of the column cannot be revealed (the evident intent of
//     "rollback field type" in response_proxy.go): the expected type of a column is therefore decided by the
//     delivered cells of THAT column (and by nothing else);
//   - an error policy failure replaces the whole reply by one ERR packet.

import (
	"bytes"
	"encoding/hex"
	"errors"
	"fmt"
	"reflect"
	"sort"
	"strconv"
	"strings"
	"sync"
	"testing"
	"unicode/utf8"

	"pgregory.net/rapid"

	"github.com/cossacklabs/acra/encryptor/base/config"

	"verif/internal/fix"
	"verif/internal/hx"
	"verif/internal/mysess"
	"verif/internal/pgprog"
)

// ---------------------------------------------------------------------------------------------
// configuration

// MyCol is a column of the generated table: the (database independent) column specification plus the column's
// type inside the MySQL database.
type MyCol struct {
	pgprog.ColSpec
	DB string `json:"db"` // blob | varbinary | varchar | text | int | bigint
}

// MyTable is the generated table; column 0 is the plain INT key "id".
type MyTable struct {
	Name string  `json:"name"`
	Cols []MyCol `json:"cols"`
}

var myDBTypes = map[string]mysess.ColType{"blob": mysess.Blob, "varbinary": mysess.VarBinary, "varchar": mysess.Varchar,
	"text": mysess.Text, "int": mysess.Int, "bigint": mysess.BigInt}

// the MySQL type ids of the declared types
var myDeclaredType = map[string]byte{"str": mysess.TypeString, "bytes": mysess.TypeBlob, "int32": mysess.TypeLong, "int64": mysess.TypeLongLong}

func (c MyCol) typed() bool { return c.Protected() && c.DataType != "" }

func (c MyCol) dbType() mysess.ColType { return myDBTypes[c.DB] }

// origDef is the column definition the database sends for the column (name = what the client sees).
func (c MyCol) origDef(schema, table, shown string) mysess.ColumnDef {
	return mysess.FieldDef(schema, mysess.Field{Name: shown, OrgName: c.Name, Table: table, Type: c.dbType()})
}

func mySchemaYAML(tb MyTable) string {
	var b strings.Builder
	fmt.Fprintf(&b, "schemas:\n  - table: %s\n    columns:\n", tb.Name)
	for _, c := range tb.Cols {
		fmt.Fprintf(&b, "      - %s\n", c.Name)
	}
	b.WriteString("    encrypted:\n")
	n := 0
	for _, c := range tb.Cols {
		if !c.Protected() {
			continue
		}
		n++
		fmt.Fprintf(&b, "      - column: %s\n", c.Name)
		if c.ClientID != "" {
			fmt.Fprintf(&b, "        client_id: %s\n", strconv.Quote(c.ClientID))
		}
		if c.Envelope != "" {
			fmt.Fprintf(&b, "        crypto_envelope: %s\n", c.Envelope)
		}
		switch c.Kind {
		case pgprog.KSearch:
			b.WriteString("        searchable: true\n")
		case pgprog.KMask:
			fmt.Fprintf(&b, "        masking: %s\n        plaintext_length: %d\n        plaintext_side: %s\n", strconv.Quote(c.MaskPat), c.MaskLen, c.MaskSide)
		}
		if c.DataType != "" {
			if c.ByTypeID {
				fmt.Fprintf(&b, "        data_type_db_identifier: %d\n", myDeclaredType[c.DataType])
			} else {
				fmt.Fprintf(&b, "        data_type: %s\n", c.DataType)
			}
		}
		if c.OnFail != "" {
			fmt.Fprintf(&b, "        response_on_fail: %s\n", c.OnFail)
		}
		if c.HasDefault {
			fmt.Fprintf(&b, "        default_data_value: %s\n", strconv.Quote(c.Default))
		}
	}
	if n == 0 {
		b.WriteString("      []\n")
	}
	return b.String()
}

var (
	myCombosOnce sync.Once
	myCombosBy   map[string][]combo // typed: kind + "/" + policy class; untyped: "untyped/" + kind
)

// myTypedCombos enumerates the (kind, envelope, declared type, policy, by name / by type id) combinations and
// keeps those the real loader accepts for MySQL (MapTableSchemaStoreFromConfig with useMySQL = true).
func myTypedCombos() map[string][]combo {
	myCombosOnce.Do(func() {
		myCombosBy = map[string][]combo{}
		accepted := func(c pgprog.ColSpec) bool {
			if c.Kind == pgprog.KMask {
				c.MaskPat, c.MaskLen, c.MaskSide = "xx", 1, "left"
			}
			if c.OnFail == "default_value" {
				c.HasDefault = true
				c.Default = map[string]string{"str": "d", "bytes": "ZA==", "int32": "1", "int64": "1"}[c.DataType]
			}
			y := mySchemaYAML(MyTable{Name: "t", Cols: []MyCol{{ColSpec: pgprog.ColSpec{Name: "id", Kind: pgprog.KPlainInt}, DB: "int"}, {ColSpec: c, DB: "blob"}}})
			_, err := config.MapTableSchemaStoreFromConfig([]byte(y), true)
			return err == nil
		}
		for _, kind := range []string{pgprog.KTyped, pgprog.KSearch, pgprog.KMask} {
			for _, env := range []string{"", "acrastruct", "acrablock"} {
				for _, dt := range []string{"str", "bytes", "int32", "int64"} {
					for _, of := range []string{"", "ciphertext", "default_value", "error"} {
						for _, byID := range []bool{false, true} {
							if accepted(pgprog.ColSpec{Name: "c", Kind: kind, Envelope: env, DataType: dt, ByTypeID: byID, OnFail: of}) {
								k := kind + "/" + policyClass(of)
								myCombosBy[k] = append(myCombosBy[k], combo{kind, env, dt, of, byID})
							}
						}
					}
				}
			}
		}
		for _, kind := range []string{pgprog.KEnc, pgprog.KSearch, pgprog.KMask} {
			for _, env := range []string{"", "acrastruct", "acrablock"} {
				if accepted(pgprog.ColSpec{Name: "c", Kind: kind, Envelope: env}) {
					k := "untyped/" + kind
					myCombosBy[k] = append(myCombosBy[k], combo{Kind: kind, Envelope: env})
				}
			}
		}
	})
	return myCombosBy
}

func genMyTypedCol(t *rapid.T, name, policy string) MyCol {
	kind := rapid.SampledFrom([]string{pgprog.KTyped, pgprog.KTyped, pgprog.KTyped, pgprog.KTyped, pgprog.KSearch, pgprog.KMask}).Draw(t, name+".kind")
	if policy == "" {
		policy = rapid.SampledFrom([]string{"ciphertext", "default_value", "error"}).Draw(t, name+".policy")
	}
	list := myTypedCombos()[kind+"/"+policy]
	if len(list) == 0 {
		kind = pgprog.KTyped
		list = myTypedCombos()[kind+"/"+policy]
	}
	cb := rapid.SampledFrom(list).Draw(t, name+".combo")
	c := pgprog.ColSpec{Name: name, Kind: cb.Kind, Envelope: cb.Envelope, DataType: cb.DataType, OnFail: cb.OnFail, ByTypeID: cb.ByTypeID}
	if rapid.IntRange(0, 3).Draw(t, name+".explicit") == 0 {
		c.ClientID = "alice"
	}
	if c.Kind == pgprog.KMask {
		c.MaskPat = rapid.SampledFrom([]string{"xxxx", "*", "MASK"}).Draw(t, name+".pat")
		c.MaskLen = rapid.IntRange(0, 9).Draw(t, name+".mlen")
		c.MaskSide = rapid.SampledFrom([]string{"left", "right"}).Draw(t, name+".side")
	}
	if c.OnFail == "default_value" {
		c.HasDefault = true
		c.Default = rapid.SampledFrom(defaultsOf[c.DataType]).Draw(t, name+".default")
	}
	return MyCol{ColSpec: c, DB: rapid.SampledFrom([]string{"blob", "blob", "varbinary"}).Draw(t, name+".db")}
}

func genMyUntypedCol(t *rapid.T, name string) MyCol {
	kind := rapid.SampledFrom([]string{pgprog.KEnc, pgprog.KEnc, pgprog.KEnc, pgprog.KSearch, pgprog.KMask}).Draw(t, name+".kind")
	list := myTypedCombos()["untyped/"+kind]
	if len(list) == 0 {
		kind = pgprog.KEnc
		list = myTypedCombos()["untyped/"+kind]
	}
	cb := rapid.SampledFrom(list).Draw(t, name+".combo")
	c := pgprog.ColSpec{Name: name, Kind: cb.Kind, Envelope: cb.Envelope}
	if rapid.IntRange(0, 3).Draw(t, name+".explicit") == 0 {
		c.ClientID = "alice"
	}
	if c.Kind == pgprog.KMask {
		c.MaskPat = rapid.SampledFrom([]string{"xxxx", "*", "MASK"}).Draw(t, name+".pat")
		c.MaskLen = rapid.IntRange(0, 9).Draw(t, name+".mlen")
		c.MaskSide = rapid.SampledFrom([]string{"left", "right"}).Draw(t, name+".side")
	}
	return MyCol{ColSpec: c, DB: rapid.SampledFrom([]string{"blob", "blob", "varbinary"}).Draw(t, name+".db")}
}

func genMyPlainCol(t *rapid.T, name string) MyCol {
	switch rapid.IntRange(0, 3).Draw(t, name+".kind") {
	case 0:
		return MyCol{ColSpec: pgprog.ColSpec{Name: name, Kind: pgprog.KPlainText}, DB: rapid.SampledFrom([]string{"varchar", "text"}).Draw(t, name+".db")}
	case 1:
		return MyCol{ColSpec: pgprog.ColSpec{Name: name, Kind: pgprog.KPlainBytea}, DB: rapid.SampledFrom([]string{"blob", "varbinary"}).Draw(t, name+".db")}
	case 2:
		return MyCol{ColSpec: pgprog.ColSpec{Name: name, Kind: pgprog.KPlainInt}, DB: "int"}
	}
	return MyCol{ColSpec: pgprog.ColSpec{Name: name, Kind: pgprog.KPlainInt}, DB: "bigint"}
}

// ---------------------------------------------------------------------------------------------
// case

// MySel is one SELECT of the reader's session.
type MySel struct {
	Cols    []int  `json:"cols,omitempty"`   // nil = *
	Binary  bool   `json:"binary,omitempty"` // COM_STMT_PREPARE + COM_STMT_EXECUTE instead of COM_QUERY
	WhereID *int64 `json:"where_id,omitempty"`
	Alias   bool   `json:"alias,omitempty"`    // table alias and column aliases
	ReuseOf *int   `json:"reuse_of,omitempty"` // binary: execute the statement prepared by that earlier select again
	NoTypes bool   `json:"no_types,omitempty"` // re-execution without the parameter types (new-params-bound flag 0)
}

// MyCase is a session case: one table, its rows, who reads with which protocol options, and the statements.
type MyCase struct {
	Table        MyTable  `json:"table"`
	Rows         [][]Cell `json:"rows"` // per row: cells of columns 1.. (column 0 is the key id = row index + 1)
	Reader       string   `json:"reader"`
	DeprecateEOF bool     `json:"deprecate_eof,omitempty"`
	Selects      []MySel  `json:"selects"`
}

func genMyCase(t *rapid.T) MyCase {
	c := MyCase{Table: MyTable{Name: "typed"}}
	var cols []MyCol
	if rapid.IntRange(0, 3).Draw(t, "shape") == 0 {
		// one column per policy
		for i, p := range rapid.Permutation([]string{"error", "default_value", "ciphertext"}).Draw(t, "policies") {
			cols = append(cols, genMyTypedCol(t, fmt.Sprintf("p%d", i), p))
		}
	} else {
		n := rapid.IntRange(1, 4).Draw(t, "nprot")
		for i := 0; i < n; i++ {
			cols = append(cols, genMyTypedCol(t, fmt.Sprintf("p%d", i), ""))
		}
	}
	// plain columns and protected columns without data_type in between
	ne := rapid.IntRange(0, 2).Draw(t, "nuntyped")
	for i := 0; i < ne; i++ {
		pos := rapid.IntRange(0, len(cols)).Draw(t, fmt.Sprintf("e%d.pos", i))
		cols = append(cols[:pos], append([]MyCol{genMyUntypedCol(t, fmt.Sprintf("e%d", i))}, cols[pos:]...)...)
	}
	np := rapid.IntRange(0, 2).Draw(t, "nplain")
	for i := 0; i < np; i++ {
		pos := rapid.IntRange(0, len(cols)).Draw(t, fmt.Sprintf("u%d.pos", i))
		cols = append(cols[:pos], append([]MyCol{genMyPlainCol(t, fmt.Sprintf("u%d", i))}, cols[pos:]...)...)
	}
	c.Table.Cols = append([]MyCol{{ColSpec: pgprog.ColSpec{Name: "id", Kind: pgprog.KPlainInt}, DB: "int"}}, cols...)
	c.Reader = rapid.SampledFrom([]string{"owner", "owner", "nokeys"}).Draw(t, "reader")
	c.DeprecateEOF = rapid.Bool().Draw(t, "deprecate_eof")
	trouble := rapid.SampledFrom([]int{0, 1, 1, 3}).Draw(t, "trouble")
	nrows := rapid.SampledFrom([]int{1, 1, 2, 3}).Draw(t, "nrows")
	for r := 0; r < nrows; r++ {
		var row []Cell
		for ci, col := range c.Table.Cols[1:] {
			label := fmt.Sprintf("r%dc%d", r, ci+1)
			cell := Cell{V: pgprog.GenVal(t, col.ColSpec, label), State: "valid"}
			if col.Protected() {
				states := []string{"valid", "valid", "valid", "valid"}
				for i := 0; i < trouble; i++ {
					states = append(states, "foreign")
					if col.Kind != pgprog.KMask {
						states = append(states, "damaged")
					}
				}
				cell.State = rapid.SampledFrom(states).Draw(t, label+".state")
				if cell.State == "damaged" {
					cell.Damage = rapid.IntRange(0, 15).Draw(t, label+".damage")
				}
			}
			row = append(row, cell)
		}
		c.Rows = append(c.Rows, row)
	}
	nsel := rapid.IntRange(1, 4).Draw(t, "nsel")
	for i := 0; i < nsel; i++ {
		label := fmt.Sprintf("s%d", i)
		var s MySel
		all := len(c.Table.Cols) - 1
		want := rapid.SampledFrom([]int{1, 2, 3, all, all, 0}).Draw(t, label+".ncols") // 0 = *
		if want > 0 {
			perm := rapid.Permutation(seq(1, all)).Draw(t, label+".cols")
			if want > len(perm) {
				want = len(perm)
			}
			s.Cols = perm[:want]
			if rapid.IntRange(0, 3).Draw(t, label+".withid") == 0 {
				at := rapid.IntRange(0, len(s.Cols)).Draw(t, label+".idpos")
				s.Cols = append(s.Cols[:at:at], append([]int{0}, s.Cols[at:]...)...)
			}
		}
		s.Binary = rapid.Bool().Draw(t, label+".binary")
		if rapid.Bool().Draw(t, label+".byid") {
			id := rapid.Int64Range(1, int64(nrows)).Draw(t, label+".id")
			s.WhereID = &id
		}
		s.Alias = rapid.IntRange(0, 3).Draw(t, label+".alias") == 0
		if s.Binary {
			var earlier []int
			for j, e := range c.Selects {
				if e.Binary && e.ReuseOf == nil {
					earlier = append(earlier, j)
				}
			}
			if len(earlier) > 0 && rapid.IntRange(0, 2).Draw(t, label+".reuse") == 0 {
				j := rapid.SampledFrom(earlier).Draw(t, label+".reuseof")
				s.ReuseOf, s.Cols, s.Alias = &j, c.Selects[j].Cols, c.Selects[j].Alias
				if c.Selects[j].WhereID == nil {
					s.WhereID = nil
				} else if s.WhereID == nil {
					s.WhereID = c.Selects[j].WhereID
				}
				s.NoTypes = rapid.Bool().Draw(t, label+".notypes")
			}
		}
		c.Selects = append(c.Selects, s)
	}
	return c
}

// ---------------------------------------------------------------------------------------------
// client side: literals, replies

func myQuotable(b []byte) bool {
	if !utf8.Valid(b) {
		return false
	}
	for _, c := range b {
		if c < 0x20 || c == 0x7f || c == '\'' || c == '\\' || c == '"' {
			return false
		}
	}
	return true
}

// myLiteral renders a value as a MySQL literal: integers in decimal, strings quoted when nothing in them needs
// an escape (the meaning of escapes is C13's subject), everything else as a hexadecimal literal.
func myLiteral(v pgprog.Val, col MyCol) string {
	if v.Null {
		return "NULL"
	}
	if col.Kind == pgprog.KPlainInt || col.DataType == "int32" || col.DataType == "int64" {
		return string(v.B)
	}
	if (col.Kind == pgprog.KPlainText || col.DataType == "str") && myQuotable(v.B) {
		return "'" + string(v.B) + "'"
	}
	return "X'" + hex.EncodeToString(v.B) + "'"
}

// myReply is what the client received for one SELECT, taken apart leniently: the packets are framed by their
// headers, so a row that cannot be decoded with the described types does not desynchronise the session.
type myReply struct {
	errPkt  *mysess.Err
	okPkt   bool // an OK packet instead of a result set
	fields  []mysess.ColumnDef
	rawRows [][]byte
	ended   bool // a proper terminator (EOF / OK / ERR) was seen
}

func readMyReply(s *mysess.Session) (*myReply, error) {
	rep := &myReply{}
	p, err := s.ReadPacket()
	if err != nil {
		return rep, err
	}
	b := p.Payload
	if len(b) == 0 {
		return rep, fmt.Errorf("%w: empty first packet of the reply", mysess.ErrMalformed)
	}
	switch b[0] {
	case 0xff:
		e, err := mysess.DecodeErr(b, s.Caps)
		if err != nil {
			return rep, err
		}
		rep.errPkt, rep.ended = &e, true
		return rep, nil
	case 0x00:
		rep.okPkt, rep.ended = true, true
		return rep, nil
	}
	n, _, used, _, err := mysess.ReadLenEncInt(b)
	if err != nil || used != len(b) {
		return rep, fmt.Errorf("%w: column count packet % x", mysess.ErrMalformed, b)
	}
	for i := 0; i < int(n); i++ {
		p, err := s.ReadPacket()
		if err != nil {
			return rep, err
		}
		cd, err := mysess.DecodeColumnDef(p.Payload)
		if err != nil {
			return rep, fmt.Errorf("column definition %d: %w", i, err)
		}
		rep.fields = append(rep.fields, cd)
	}
	if s.Caps&mysess.CapDeprecateEOF == 0 {
		p, err := s.ReadPacket()
		if err != nil {
			return rep, err
		}
		if _, err := mysess.DecodeEOF(p.Payload, s.Caps); err != nil {
			return rep, fmt.Errorf("after the column definitions: %w", err)
		}
	}
	for {
		p, err := s.ReadPacket()
		if err != nil {
			return rep, err
		}
		if mysess.IsResultSetEnd(p.Payload, s.Caps) {
			rep.ended = true
			if p.Payload[0] == 0xff {
				e, err := mysess.DecodeErr(p.Payload, s.Caps)
				if err != nil {
					return rep, err
				}
				rep.errPkt = &e
			}
			return rep, nil
		}
		rep.rawRows = append(rep.rawRows, p.Payload)
	}
}

// ---------------------------------------------------------------------------------------------
// oracle

func myTypeName(col MyCol) string {
	n := col.DataType
	if n == "" {
		n = "untyped"
	}
	if col.ByTypeID {
		n += "#id"
	}
	if col.Kind != pgprog.KTyped {
		n += "@" + col.Kind
	}
	return n
}

func protoName(binary bool) string {
	if binary {
		return "binary"
	}
	return "text"
}

type myRun struct {
	c       MyCase
	res     *sessResult
	stored  [][]mysess.Value
	clear   map[string]bool
	suffix  string
	readerI string
	schema  string
}

func (r *myRun) add(sig, format string, args ...any) { r.res.vs.Add(sig+r.suffix, format, args...) }
func (r *myRun) class(c string)                      { r.res.classes[c] = true }

// canReveal: as in the PostgreSQL twin - values are protected for the column's configured client if there is
// one, else for the writing connection, and revealed with the keys of the reading connection.
func (r *myRun) canReveal(col MyCol, cell Cell) bool {
	if cell.State == "damaged" {
		return false
	}
	writer := "alice"
	if cell.State == "foreign" {
		writer = "bobby"
	}
	if col.ClientID != "" {
		writer = col.ClientID
	}
	return r.readerI == "alice" && writer == "alice"
}

// present: the cell holds a protected value (NULL and the empty value are stored as they are).
func present(cell Cell) bool { return !cell.V.Null && len(cell.V.B) > 0 }

// CheckMySession runs the case through proxied MySQL sessions.
func CheckMySession(c MyCase) *sessResult {
	res := &sessResult{classes: map[string]bool{}}
	run := &myRun{c: c, res: res, clear: map[string]bool{}, readerI: "alice"}
	if c.Reader == "nokeys" {
		run.readerI = "carol"
	}
	w := fix.TheWorld()
	tb := c.Table
	yaml := mySchemaYAML(tb)
	def := mysess.TableDef{Name: tb.Name}
	for _, col := range tb.Cols {
		def.Cols = append(def.Cols, mysess.ColumnSpec{Name: col.Name, Type: col.dbType()})
	}
	defs := []mysess.TableDef{def}
	debugf("CONFIG\n%s", yaml)
	timeout := func(err error, where string) bool {
		if errors.Is(err, mysess.ErrTimeout) {
			res.inconclusive = true
			R.Note("inconclusive: i/o deadline in %s (MySQL)", where)
			return true
		}
		return false
	}
	broken := func(s *mysess.Session, sig, what string, err error) {
		if ps := s.Panics(); len(ps) > 0 {
			run.add("handler-panic:"+hx.PanicFunc(ps[0]), "%s: the proxy's connection handler panicked: %.1500s", what, ps[0])
			return
		}
		run.add(sig, "%s: %v (proxy errors %q)", what, err, s.ProxyErrors())
	}

	// ---- writing: the owner writes everything but the foreign cells, bobby writes those
	sA, err := mysess.Start(mysess.Config{SchemaYAML: yaml, KeyStore: w.KS, ClientID: w.Alice, Tables: defs})
	if err != nil {
		if !timeout(err, "start of the writing session") {
			res.vs.Add("harness:start", "%v\n%s", err, yaml)
		}
		return res
	}
	defer sA.Close()
	store := sA.DB.Store
	run.schema = store.Schema
	// MySQL puts the table alias of the statement into the `table` field of a column definition (org_table keeps the
	// real name). The fake database does so when Store.AliasInFields is set - a switch added to internal/mysess
	// together with the C04 twin; set through reflection so that this package builds with and without it.
	if f := reflect.ValueOf(store).Elem().FieldByName("AliasInFields"); f.IsValid() && f.CanSet() && f.Kind() == reflect.Bool {
		f.SetBool(true)
		run.class("fake-database:table-alias-in-column-definitions")
	}
	var names []string
	for _, col := range tb.Cols {
		names = append(names, col.Name)
	}
	insert := func(s *mysess.Session, idOff int, foreign bool, who string) bool {
		for ri, row := range c.Rows {
			any := !foreign
			lits := []string{strconv.Itoa(ri + 1 + idOff)}
			for ci, cell := range row {
				if (cell.State == "foreign") != foreign {
					lits = append(lits, "NULL")
					continue
				}
				any = true
				lits = append(lits, myLiteral(cell.V, tb.Cols[ci+1]))
			}
			if !any {
				continue
			}
			sql := "INSERT INTO " + tb.Name + " (" + strings.Join(names, ", ") + ") VALUES (" + strings.Join(lits, ", ") + ")"
			rep, err := s.Query(sql)
			if err != nil {
				if !timeout(err, "insert by "+who) {
					res.vs.Add("harness:insert", "insert by %s broke the session: %v (%.200s) %q", who, err, sql, s.ProxyErrors())
				}
				return false
			}
			if e := rep.Error(); e != "" {
				res.vs.Add("harness:insert", "insert by %s answered with %q (%.200s)", who, e, sql)
				return false
			}
		}
		return true
	}
	if !insert(sA, 0, false, "alice") {
		return res
	}
	hasForeign := false
	for _, row := range c.Rows {
		for _, cell := range row {
			hasForeign = hasForeign || cell.State == "foreign"
		}
	}
	if hasForeign {
		sB, err := mysess.Start(mysess.Config{SchemaYAML: yaml, KeyStore: w.KS, ClientID: w.Bobby, Tables: defs, Store: store})
		if err != nil {
			if !timeout(err, "start of bobby's session") {
				res.vs.Add("harness:start", "bobby: %v", err)
			}
			return res
		}
		ok := insert(sB, 1000, true, "bobby")
		sB.Close()
		if !ok {
			return res
		}
	}
	sA.Close()

	// ---- planting: move bobby's protected values into the owner's rows, damage what is to be damaged
	byID := map[string][]mysess.Value{}
	for _, row := range store.Rows(tb.Name) {
		byID[string(row[0].B)] = row
	}
	var planted [][]mysess.Value
	for ri, row := range c.Rows {
		mine := byID[strconv.Itoa(ri+1)]
		if mine == nil {
			res.vs.Add("harness:store", "row %d is not in the database after the inserts", ri+1)
			return res
		}
		mine = append([]mysess.Value(nil), mine...)
		theirs := byID[strconv.Itoa(ri+1001)]
		for ci, cell := range row {
			col := tb.Cols[ci+1]
			if cell.State == "foreign" {
				if theirs == nil {
					res.vs.Add("harness:store", "bobby's row %d is not in the database", ri+1001)
					return res
				}
				mine[ci+1] = theirs[ci+1]
			}
			v := mine[ci+1]
			if col.Protected() && present(cell) {
				if v.Null || len(v.B) < 32 || bytes.Contains(v.B, cell.V.B) && len(cell.V.B) >= 8 && col.Kind != pgprog.KMask {
					// C04's subject; here it is a precondition
					res.vs.Add("precondition:not-protected-in-store", "column %s (%s): the database holds %.40q for %.40q", col.Name, col.Kind, v.B, cell.V.B)
					return res
				}
				if cell.State == "damaged" {
					b := append([]byte(nil), v.B...)
					b[len(b)-1-cell.Damage%16] ^= 0x20
					mine[ci+1] = mysess.Value{B: b}
				}
			}
		}
		planted = append(planted, mine)
	}
	store.SetRows(tb.Name, planted)
	run.stored = planted

	// markers the reader legitimately receives
	for _, row := range c.Rows {
		for ci, cell := range row {
			col := tb.Cols[ci+1]
			if mk := pgprog.Marker(cell.V); mk != nil && (!col.Protected() || col.Kind == pgprog.KMask || run.canReveal(col, cell)) {
				run.clear[string(mk)] = true
			}
		}
	}

	// ---- reading
	rid := w.Alice
	if c.Reader == "nokeys" {
		rid = w.Carol
	}
	run.class("reader:" + c.Reader)
	caps := uint32(mysess.DefaultCaps)
	if c.DeprecateEOF {
		caps |= mysess.CapDeprecateEOF
		run.class("caps:deprecate-eof")
	} else {
		run.class("caps:eof-packets")
	}
	sR, err := mysess.Start(mysess.Config{SchemaYAML: yaml, KeyStore: w.KS, ClientID: rid, Tables: defs, Store: store, ClientCaps: caps})
	if err != nil {
		if !timeout(err, "start of the reading session") {
			res.vs.Add("harness:start", "reader: %v", err)
		}
		return res
	}
	defer sR.Close()
	stmts := map[int]*mysess.Stmt{}
	afterError := false
	for si, sel := range c.Selects {
		if sel.ReuseOf != nil && (*sel.ReuseOf < 0 || *sel.ReuseOf >= si || !sel.Binary || stmts[*sel.ReuseOf] == nil) {
			sel.ReuseOf = nil // (a shrunk case may have lost the statement it referred to)
		}
		if sel.ReuseOf != nil {
			prev := c.Selects[*sel.ReuseOf]
			sel.Cols, sel.Alias = prev.Cols, prev.Alias
			if prev.WhereID == nil {
				sel.WhereID = nil
			} else if sel.WhereID == nil {
				sel.WhereID = prev.WhereID
			}
		}
		cols := sel.Cols
		for _, ci := range cols {
			if ci < 0 || ci >= len(tb.Cols) {
				res.vs.Add("harness:case", "statement %d selects column %d of %d", si, ci, len(tb.Cols))
				return res
			}
		}
		qual := ""
		if sel.Alias {
			qual = "q."
			run.class("select:alias")
		}
		shown := make([]string, 0, len(cols))
		list := "*"
		if cols == nil {
			cols = seq(0, len(tb.Cols)-1)
			run.class("select:star")
			for _, ci := range cols {
				shown = append(shown, tb.Cols[ci].Name)
			}
		} else {
			var n []string
			for k, ci := range cols {
				name := qual + tb.Cols[ci].Name
				show := tb.Cols[ci].Name
				if sel.Alias && k%2 == 0 {
					show = fmt.Sprintf("a%d", k)
					name += " AS " + show
				}
				n = append(n, name)
				shown = append(shown, show)
			}
			list = strings.Join(n, ", ")
		}
		sql := "SELECT " + list + " FROM " + tb.Name
		if sel.Alias {
			sql += " AS q"
		}
		var params []mysess.Param
		if sel.WhereID != nil {
			if sel.Binary {
				sql += " WHERE " + qual + "id = ?"
				params = []mysess.Param{{Type: mysess.TypeLong, B: mysess.IntBytes(mysess.TypeLong, *sel.WhereID)}}
			} else {
				sql += fmt.Sprintf(" WHERE %sid = %d", qual, *sel.WhereID)
			}
		}
		proto := protoName(sel.Binary)
		run.suffix = ""
		if afterError {
			run.suffix = ":after-error-failure"
			run.class("after-error-failure")
		}
		var rep *myReply
		if sel.Binary {
			var st *mysess.Stmt
			if sel.ReuseOf != nil {
				st = stmts[*sel.ReuseOf]
				proto = "binary-reexec"
				run.class("prepared-statement:executed-again")
			} else {
				st, err = sR.Prepare(sql)
				if err == nil && st.Err != nil {
					run.add("unexpected-error:prepare", "statement %d (%s): COM_STMT_PREPARE was answered with %d %q", si, sql, st.Err.Code, st.Err.Message)
					continue
				}
				if err == nil {
					stmts[si] = st
				}
			}
			if err == nil {
				ex := mysess.Execute{StmtID: st.ID, NewParams: !(sel.ReuseOf != nil && sel.NoTypes && len(params) > 0), Params: params}
				if !ex.NewParams {
					run.class("prepared-statement:executed-again/without-parameter-types")
				}
				err = sR.SendCommand(ex.Encode())
			}
		} else {
			err = sR.SendCommand(append([]byte{mysess.ComQuery}, sql...))
		}
		if err == nil {
			rep, err = readMyReply(sR)
		}
		if rep != nil {
			debugf("STMT %d %s %s\n   err=%v ERR=%v rows=%d\n", si, proto, sql, err, rep.errPkt, len(rep.rawRows))
			for _, f := range rep.fields {
				debugf("   field %s/%s type=%#x cs=%d flags=%#x\n", f.Name, f.OrgName, f.Type, f.Charset, f.Flags)
			}
			for _, row := range rep.rawRows {
				debugf("   row %.90q\n", row)
			}
		}
		if err != nil {
			if !timeout(err, fmt.Sprintf("statement %d", si)) {
				broken(sR, "session-broken:"+proto, fmt.Sprintf("statement %d (%s)", si, sql), err)
			}
			return res
		}
		run.class("proto:" + proto)
		if sel.Binary {
			res.nontrivial = true
		}
		if run.checkStatement(si, sel, cols, shown, sql, rep, proto) {
			afterError = true
		}
	}
	run.suffix = ""
	if ps := sR.Panics(); len(ps) > 0 {
		run.add("handler-panic:"+hx.PanicFunc(ps[0]), "the proxy's connection handler panicked: %.1500s", ps[0])
	}

	// nothing the reader cannot reveal may appear anywhere in what it received
	_, recv := sR.ClientStreams()
	for _, row := range c.Rows {
		for ci, cell := range row {
			col := tb.Cols[ci+1]
			if !col.Protected() || col.Kind == pgprog.KMask || run.canReveal(col, cell) {
				continue
			}
			if mk := pgprog.Marker(cell.V); mk != nil && !run.clear[string(mk)] && containsMarker(recv, mk) {
				run.add("plaintext-to-reader-who-cannot-reveal:stream", "the bytes received by %s contain the plaintext marker of column %s (%s, %s)", run.readerI, col.Name, myTypeName(col), cell.State)
			}
		}
	}
	return res
}

// checkStatement evaluates one reply; it returns whether the statement was expected to fail (error policy).
func (r *myRun) checkStatement(si int, sel MySel, cols []int, shown []string, sql string, rep *myReply, proto string) bool {
	tb := r.c.Table
	pn := protoName(sel.Binary)
	var rows []int
	for ri := range r.c.Rows {
		if sel.WhereID == nil || *sel.WhereID == int64(ri+1) {
			rows = append(rows, ri)
		}
	}
	// the first row that holds a value the reader cannot reveal in a selected `error` column
	firstFail, failCol := -1, MyCol{}
	for i, ri := range rows {
		for _, ci := range cols {
			if ci == 0 {
				continue
			}
			col, cell := tb.Cols[ci], r.c.Rows[ri][ci-1]
			if col.typed() && col.Kind != pgprog.KMask && policyClass(col.OnFail) == "error" && present(cell) && !r.canReveal(col, cell) {
				firstFail, failCol = i, col
				r.class(fmt.Sprintf("cell:%s/error/%s/cannot-reveal", col.DataType, pn))
				r.class(fmt.Sprintf("reader:%s/state:%s/cannot-reveal", r.c.Reader, cell.State))
				r.class("policy:error")
				break
			}
		}
		if firstFail >= 0 {
			break
		}
	}
	if !rep.ended {
		r.add("reply-not-terminated:"+proto, "statement %d (%s): the reply did not end with EOF / OK / ERR", si, sql)
	}
	if rep.okPkt {
		r.add("ok-instead-of-result-set:"+proto, "statement %d (%s) was answered with an OK packet", si, sql)
		return firstFail >= 0
	}
	deliver := len(rows)
	if firstFail >= 0 {
		r.class("expect:statement-error")
		r.class("expect:statement-error/" + proto)
		r.res.nontrivial = true
		if firstFail > 0 {
			r.class("expect:statement-error/rows-before-the-failing-row")
		}
		if rep.errPkt == nil {
			r.add("missing-error:"+myTypeName(failCol)+":"+pn, "statement %d (%s): column %s has policy error and row %d cannot be revealed by %s, but no ERR packet arrived (%d rows)", si, sql, failCol.Name, rows[firstFail]+1, r.readerI, len(rep.rawRows))
		}
		if len(rep.rawRows) > firstFail {
			r.add("row-delivered-despite-error-policy:"+myTypeName(failCol)+":"+pn, "statement %d (%s): column %s has policy error and result row %d cannot be revealed by %s, but %d rows reached the client", si, sql, failCol.Name, firstFail, r.readerI, len(rep.rawRows))
		}
		deliver = firstFail
		if len(rep.rawRows) < deliver {
			// rows in front of the failing one may or may not have been sent: only what arrived is checked
			deliver = len(rep.rawRows)
		}
	} else {
		if rep.errPkt != nil {
			r.add("unexpected-error:"+proto, "statement %d (%s) by %s was answered with ERR %d %q; nothing in it has the error policy and an unrevealable value", si, sql, r.readerI, rep.errPkt.Code, rep.errPkt.Message)
			return false
		}
		if len(rep.rawRows) != len(rows) {
			r.add("row-count:"+proto, "statement %d (%s) returned %d rows, the table has %d matching", si, sql, len(rep.rawRows), len(rows))
			return false
		}
	}
	if rep.fields == nil {
		if deliver > 0 {
			r.add("no-column-definitions:"+proto, "statement %d (%s) returned rows without column definitions", si, sql)
		}
		return firstFail >= 0
	}
	if len(rep.fields) != len(cols) {
		r.add("column-count:"+proto, "statement %d (%s) described %d columns, want %d", si, sql, len(rep.fields), len(cols))
		return firstFail >= 0
	}

	// ---- the column definitions: each column judged by its own cells among the delivered rows
	types := make([]byte, len(cols))
	mixedIntBinary := false // a column that makes the rows of a binary result set impossible to frame (see below)
	for k, ci := range cols {
		f := rep.fields[k]
		types[k] = f.Type
		col := tb.Cols[ci]
		orig := col.origDef(r.schema, tb.Name, shown[k])
		where := fmt.Sprintf("statement %d (%s) column %d (%s)", si, sql, k, col.Name)
		if f.Name != shown[k] || f.OrgName != col.Name {
			r.add("column-name-changed:"+proto, "%s: described as %q / %q, the database sent %q / %q", where, f.Name, f.OrgName, shown[k], col.Name)
		}
		if !col.typed() {
			// plain columns and protected columns without data_type keep the definition the database sent
			if f.Type != orig.Type || f.Charset != orig.Charset || f.Flags != orig.Flags || f.Length != orig.Length {
				kind := "plain"
				if col.Protected() {
					kind = "untyped-protected"
				}
				r.add("column-definition-changed:"+kind, "%s (%s, %s): described as type %#x charset %d flags %#x length %d, the database sent type %#x charset %d flags %#x length %d",
					where, col.Kind, col.DB, f.Type, f.Charset, f.Flags, f.Length, orig.Type, orig.Charset, orig.Flags, orig.Length)
			}
			continue
		}
		revealed, ctFail, maskFail := 0, 0, 0
		for i := 0; i < deliver; i++ {
			cell := r.c.Rows[rows[i]][ci-1]
			switch {
			case !present(cell):
			case r.canReveal(col, cell):
				revealed++
			case col.Kind == pgprog.KMask:
				maskFail++
			case policyClass(col.OnFail) == "ciphertext":
				ctFail++
			}
		}
		tn := myTypeName(col)
		switch {
		case maskFail > 0:
			// C11's subject
		case ctFail > 0:
			r.class("column:rolled-back-to-database-type/" + pn)
			if revealed > 0 {
				r.class("column:revealed-and-ciphertext-rows/" + pn)
				if sel.Binary && (col.DataType == "int32" || col.DataType == "int64") {
					mixedIntBinary = true
				}
			}
			if f.Type != orig.Type {
				r.add("ciphertext-policy-wrong-type-described:"+tn+":"+pn, "%s (%s): %d delivered value(s) cannot be revealed by %s and come as stored, but the column is described with type %#x; the database's type is %#x (declared %#x)",
					where, tn, ctFail, r.readerI, f.Type, orig.Type, myDeclaredType[col.DataType])
			}
		default:
			if f.Type != myDeclaredType[col.DataType] {
				r.add("wrong-type-described:"+tn+":"+pn, "%s (%s): described with type %#x, the declared type %s is %#x (the database's type is %#x)", where, tn, f.Type, col.DataType, myDeclaredType[col.DataType], orig.Type)
			}
			if (col.DataType == "int32" || col.DataType == "int64") && f.Flags&mysess.FlagUnsigned != 0 {
				r.add("wrong-type-described:unsigned:"+tn+":"+pn, "%s: the signed type %s is described with the UNSIGNED flag (flags %#x)", where, col.DataType, f.Flags)
			}
		}
	}

	// ---- the rows
	if mixedIntBinary {
		// the open finding: one column definition serves all rows, and a column with a declared integer type whose
		// delivered values are partly revealed (4 / 8 raw bytes) and partly returned as stored (length-encoded)
		// cannot be framed under any type. A row that happens to be decodable all the same is misread (a revealed
		// 3 arrives as the three bytes behind a length byte 3), so nothing about the rows of this result set is judged
		r.res.vs.Add("malformed-row:binary:integer-column-with-revealed-and-ciphertext-rows", "statement %d (%s): an integer column holds revealed and unrevealable rows in a binary result set; described column types % x", si, sql, types)
		return firstFail >= 0
	}
	for i := 0; i < deliver; i++ {
		ri := rows[i]
		var row []mysess.Value
		var err error
		if sel.Binary {
			row, err = mysess.DecodeBinaryRow(rep.rawRows[i], types)
		} else {
			row, err = mysess.DecodeTextRow(rep.rawRows[i], len(types))
		}
		// classes of the row: what stands next to what
		r.rowClasses(ri, cols, pn)
		if err != nil {
			msg := fmt.Sprintf("statement %d (%s) row %d cannot be taken apart with the described column types % x: %v (%.120q)", si, sql, ri+1, types, err, rep.rawRows[i])
			if mixedIntBinary {
				// one column definition serves all rows: a column with a declared integer type whose values are partly
				// revealed (4 / 8 bytes) and partly returned as stored (length-encoded) cannot be framed under any type
				// (one class whatever happened before in the session: no suffix)
				r.res.vs.Add("malformed-row:binary:integer-column-with-revealed-and-ciphertext-rows", "%s", msg)
			} else {
				r.add("malformed-row:"+pn, "%s", msg)
			}
			return firstFail >= 0
		}
		for k, ci := range cols {
			col := tb.Cols[ci]
			if ci == 0 {
				got, err := decodeMy(row[k], types[k], sel.Binary)
				if err != nil || string(got) != strconv.Itoa(ri+1) {
					r.add("uncovered-column-changed:id", "statement %d (%s): key column came back as %v (type %#x, %v), want %d", si, sql, row[k], types[k], err, ri+1)
				}
				continue
			}
			r.checkCell(si, sql, col, r.c.Rows[ri][ci-1], r.stored[ri][ci], row[k], rep.fields[k], sel.Binary, ri)
		}
	}
	return firstFail >= 0
}

// rowClasses records which kinds of cells stand in one delivered row.
func (r *myRun) rowClasses(ri int, cols []int, pn string) {
	tb := r.c.Table
	readable, unreadable, typed, untyped, plain := 0, 0, 0, 0, 0
	prev, alternations := "", 0
	for _, ci := range cols {
		if ci == 0 {
			continue
		}
		col, cell := tb.Cols[ci], r.c.Rows[ri][ci-1]
		kind := "plain"
		switch {
		case col.typed():
			typed++
			kind = "typed"
		case col.Protected():
			untyped++
			kind = "untyped"
		default:
			plain++
		}
		if col.Protected() && present(cell) {
			if r.canReveal(col, cell) {
				readable++
				kind += "+"
			} else {
				unreadable++
				kind += "-"
			}
		}
		if prev != "" && prev != kind {
			alternations++
		}
		prev = kind
	}
	if readable > 0 && unreadable > 0 {
		r.class("row:readable-and-unreadable-protected-cells")
		r.class("row:readable-and-unreadable-protected-cells/" + pn)
	}
	if typed > 0 && untyped > 0 {
		r.class("row:typed-and-untyped-protected-columns")
	}
	if typed > 0 && plain > 0 {
		r.class("row:typed-and-plain-columns")
	}
	if alternations >= 2 {
		r.class("row:neighbours-alternate>=2")
	}
}

// decodeMy interprets a received value per its described type (independent client codec): integers come back
// as canonical decimal text, everything else as the bytes.
func decodeMy(v mysess.Value, typ byte, binary bool) ([]byte, error) {
	if v.Null {
		return nil, fmt.Errorf("NULL")
	}
	switch typ {
	case mysess.TypeLong, mysess.TypeLongLong:
		bits := 32
		if typ == mysess.TypeLongLong {
			bits = 64
		}
		if binary {
			if len(v.B) != bits/8 {
				return nil, fmt.Errorf("binary integer of %d bytes for type %#x", len(v.B), typ)
			}
			n, err := mysess.IntFromBytes(v.B)
			return []byte(strconv.FormatInt(n, 10)), err
		}
		n, err := strconv.ParseInt(string(v.B), 10, bits)
		if err != nil {
			return nil, fmt.Errorf("not a decimal integer of %d bits: %.40q", bits, v.B)
		}
		return []byte(strconv.FormatInt(n, 10)), nil
	}
	return v.B, nil
}

func (r *myRun) checkCell(si int, sql string, col MyCol, cell Cell, stored mysess.Value, got mysess.Value, f mysess.ColumnDef, binary bool, ri int) {
	pn := protoName(binary)
	where := fmt.Sprintf("statement %d (%s) row %d column %s", si, sql, ri+1, col.Name)
	if !col.Protected() {
		val, err := decodeMy(got, f.Type, binary)
		if cell.V.Null {
			if !got.Null {
				r.add("uncovered-column-changed:"+col.Kind, "%s: NULL came back as %v", where, got)
			}
			return
		}
		if err != nil || !bytes.Equal(val, cell.V.B) {
			r.add("uncovered-column-changed:"+col.Kind, "%s: got %v (type %#x, %v), stored %.60q", where, got, f.Type, err, cell.V.B)
		}
		return
	}
	tn := myTypeName(col)
	policy := policyClass(col.OnFail)
	if cell.V.Null {
		r.class("value:null")
		if !got.Null {
			r.add("null-changed:"+tn+":"+pn, "%s (%s, policy %s): NULL came back as %v", where, tn, policy, got)
		}
		return
	}
	if len(cell.V.B) == 0 {
		r.class("value:empty")
		if got.Null || len(got.B) != 0 {
			r.add("empty-changed:"+tn+":"+pn, "%s (%s, policy %s): the empty value came back as %v", where, tn, policy, got)
		}
		return
	}
	reveal := r.canReveal(col, cell)
	outcome := "cannot-reveal"
	if reveal {
		outcome = "reveal"
	}
	r.class("kind:" + col.Kind)
	r.class("state:" + cell.State)
	r.class("envelope:" + col.Envelope)
	r.class(fmt.Sprintf("reader:%s/state:%s/%s", r.c.Reader, cell.State, outcome))
	if r.suffix != "" {
		r.class("after-error-failure/" + outcome)
	}
	if !reveal {
		r.res.nontrivial = true
	}
	if col.Kind == pgprog.KMask && !reveal {
		// what a masked column shows to a reader that cannot reveal it is C11's subject
		r.class("mask:cannot-reveal(not asserted)")
		return
	}
	if !col.typed() {
		// a protected column without data_type: the value for the owner, the stored bytes otherwise
		r.class("untyped-protected/" + pn + "/" + outcome)
		want := stored.B
		if reveal {
			want = cell.V.B
		}
		if got.Null || !bytes.Equal(got.B, want) {
			if !reveal {
				if mk := pgprog.Marker(cell.V); mk != nil && !r.clear[string(mk)] && containsMarker(got.B, mk) {
					r.add("plaintext-to-reader-who-cannot-reveal:"+tn+":"+pn, "%s: %s received the plaintext marker of a %s value", where, r.readerI, cell.State)
					return
				}
			}
			r.add("untyped-column-wrong-value:"+col.Kind+":"+pn+":"+outcome, "%s (%s, %s value, reader %s): received %v, want %.60q", where, col.Kind, cell.State, r.readerI, got, want)
		}
		return
	}
	r.class("type:" + col.DataType)
	if col.ByTypeID {
		r.class("declared-by:type-id")
	} else {
		r.class("declared-by:name")
	}
	r.class("policy:" + policy)
	r.class("database-type:" + col.DB)
	r.class(fmt.Sprintf("cell:%s/%s/%s/%s", col.DataType, policy, pn, outcome))
	isInt := col.DataType == "int32" || col.DataType == "int64"
	if isInt && boundaryInts[string(cell.V.B)] {
		r.class("value:boundary-int")
		r.res.nontrivial = true
	}
	if strings.HasPrefix(string(cell.V.B), "-") {
		r.class("value:negative-int")
	}
	if col.DataType == "bytes" && !validUTF8(cell.V.B) {
		r.class("value:non-utf8-bytes")
	}
	declared := myDeclaredType[col.DataType]
	dflt, _ := defaultLogical(col.ColSpec)
	if reveal {
		// (the described type was judged with the column; a column rolled back because of another row keeps the
		// text form of the value)
		val, err := decodeMy(got, f.Type, binary)
		if f.Type != declared && isInt && err == nil {
			if n, perr := strconv.ParseInt(string(val), 10, 64); perr == nil {
				val = []byte(strconv.FormatInt(n, 10))
			}
		}
		if err == nil && bytes.Equal(val, cell.V.B) {
			return
		}
		switch {
		case got.Null:
			r.add("owner-got-null:"+tn+":"+pn, "%s: the owner received NULL for %.40q", where, cell.V.B)
		case bytes.Equal(got.B, stored.B):
			r.add("owner-got-ciphertext:"+tn+":"+pn, "%s: the owner received the stored protected bytes instead of %.40q", where, cell.V.B)
		case col.HasDefault && err == nil && bytes.Equal(val, dflt.B):
			r.add("owner-got-default:"+tn+":"+pn, "%s: the owner received the default %.40q instead of %.40q", where, val, cell.V.B)
		case err != nil:
			r.add("undecodable-as-described-type:"+tn+":"+pn, "%s: %v does not decode as type %#x in the %s protocol: %v (value %.40q)", where, got, f.Type, pn, err, cell.V.B)
		default:
			r.add("owner-read-differs:"+tn+":"+pn, "%s: the owner received %v = %.60q, wrote %.60q", where, got, val, cell.V.B)
		}
		return
	}
	// the reader cannot reveal the value
	if mk := pgprog.Marker(cell.V); mk != nil && !r.clear[string(mk)] && containsMarker(got.B, mk) {
		r.add("plaintext-to-reader-who-cannot-reveal:"+tn+":"+pn, "%s (%s, policy %s): %s received the plaintext marker of a %s value", where, tn, policy, r.readerI, cell.State)
		return
	}
	switch policy {
	case "ciphertext":
		if !got.Null && bytes.Equal(got.B, stored.B) {
			return
		}
		r.add("ciphertext-policy-changed-bytes:"+tn+":"+pn, "%s (%s value, reader %s): received %v, the database holds %d bytes %.50q", where, cell.State, r.readerI, got, len(stored.B), stored.B)
	case "default_value":
		if f.Type != declared {
			return // reported with the column
		}
		val, err := decodeMy(got, declared, binary)
		if err != nil || !bytes.Equal(val, dflt.B) {
			r.add("default-policy-wrong-value:"+tn+":"+pn, "%s (%s value, reader %s): received %v (decoded %.60q, %v), the configured default %q is %.60q", where, cell.State, r.readerI, got, val, err, col.Default, dflt.B)
		}
	case "error":
		r.add("harness:oracle", "%s: error-policy cell reached the per-cell check", where)
	}
}

// ---------------------------------------------------------------------------------------------

func TestTypedSessionsMySQL(t *testing.T) {
	R.Rule("TestTypedSessionsMySQL", "case = one MySQL table with 1-4 protected columns with a declared type (typed / searchable / masked where the loader accepts it; str|bytes|int32|int64 by name or by MySQL type id; policy ciphertext|default_value(valid default of the type)|error; acrastruct|acrablock; database type BLOB or VARBINARY; sometimes an explicit client id) with 0-2 protected columns WITHOUT data_type and 0-2 plain columns (VARCHAR|TEXT|BLOB|VARBINARY|INT|BIGINT) inserted at generated positions; 1-3 rows of generated values (boundary integers, non-UTF-8 bytes, empty, NULL), each stored value valid (written through the proxy by the owner), damaged (one byte flipped inside the fake database) or foreign (written through bobby's session); reader = owner or a client without keys; CLIENT_DEPRECATE_EOF on or off; 1-4 SELECTs in ONE session (column lists in generated order / *, table and column aliases, [WHERE id]; COM_QUERY or COM_STMT_PREPARE + COM_STMT_EXECUTE with the id as parameter, a statement prepared earlier executed again with or without parameter types). Oracle per statement, column and cell, each judged by its own column only: owner+valid => the column definition names the declared MySQL type (STRING/BLOB/LONG/LONGLONG, signed) and an independent codec decodes exactly the written value (text: decimal / bytes, binary: 4/8 little-endian bytes / length-encoded); cannot reveal => ciphertext: exactly the stored bytes and the column described with the type the database sent, default_value: exactly the configured default as the declared type, error: an ERR packet and no row from the failing row on - and every later statement judged by its own columns; plain columns and protected columns without data_type keep value (or stored bytes) and the database's column definition whatever stands next to them; every row must be decodable with the described types; NULL stays NULL, empty stays empty; no plaintext marker reaches a reader that cannot reveal. Non-trivial = a selected value the reader cannot reveal, or the binary protocol, or a boundary integer")
	hx.Checks(60, 1500)
	rapid.Check(t, func(rt *rapid.T) {
		c := genMyCase(rt)
		res := CheckMySession(c)
		if res.inconclusive {
			rt.Skip("inconclusive")
		}
		cl := make([]string, 0, len(res.classes))
		for k := range res.classes {
			cl = append(cl, k)
		}
		sort.Strings(cl)
		R.Seen("TestTypedSessionsMySQL", c, res.nontrivial, cl...)
		R.Report(rt, "TestTypedSessionsMySQL", c, res.vs)
	})
}
