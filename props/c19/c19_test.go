// Package c19: typed columns come back in the declared type or per the failure policy.
//
// Two layers:
//
//	TestTypedSessions  whole PostgreSQL sessions through acra's real proxy (internal/pgsess): the column
//	                   description and the data rows are observed on the same wire, for sequences of
//	                   SELECT statements over differently configured columns.
//	TestTypedSessionsMySQL  the same for MySQL (internal/mysess): text protocol (COM_QUERY) and binary protocol
//	                   (COM_STMT_PREPARE / COM_STMT_EXECUTE), one column definition per column and result set.
//	TestEncoders       the PostgreSQL and MySQL encode/decode subscribers driven directly.
package c19

import (
	"encoding/json"
	"os"
	"testing"

	"verif/internal/hx"
)

var R = hx.New("C19")

func TestMain(m *testing.M) { os.Exit(R.Main(m)) }

func TestReplay(t *testing.T) {
	R.Replay(t, map[string]hx.ReplayHandler{
		"TestTypedSessions": func(raw json.RawMessage) hx.Vs {
			var c SCase
			if err := json.Unmarshal(raw, &c); err != nil {
				return hx.Vs{{Sig: "harness:decode", Msg: err.Error()}}
			}
			res := CheckSession(c)
			return res.vs
		},
		"TestTypedSessionsMySQL": func(raw json.RawMessage) hx.Vs {
			var c MyCase
			if err := json.Unmarshal(raw, &c); err != nil {
				return hx.Vs{{Sig: "harness:decode", Msg: err.Error()}}
			}
			res := CheckMySession(c)
			if res.inconclusive {
				return nil
			}
			return res.vs
		},
		"TestEncoders": func(raw json.RawMessage) hx.Vs {
			var c ECase
			if err := json.Unmarshal(raw, &c); err != nil {
				return hx.Vs{{Sig: "harness:decode", Msg: err.Error()}}
			}
			vs, _ := CheckEncoder(c)
			return vs
		},
	})
}
