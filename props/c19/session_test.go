package c19

import (
	"bytes"
	"encoding/base64"
	"encoding/hex"
	"errors"
	"fmt"
	"os"
	"sort"
	"strconv"
	"strings"
	"sync"
	"testing"

	"github.com/jackc/pgx/v5/pgproto3"
	"pgregory.net/rapid"

	"github.com/cossacklabs/acra/encryptor/base/config"

	"verif/internal/fix"
	"verif/internal/hx"
	"verif/internal/pgprog"
	"verif/internal/pgsess"
)

// ---------------------------------------------------------------------------------------------
// configurations: the combinations of (kind, envelope, declared type, policy, by name / by type id)
// the real loader accepts, grouped by kind and policy class

type combo struct {
	Kind, Envelope, DataType, OnFail string
	ByTypeID                       bool
}

var (
	combosOnce sync.Once
	combosBy   map[string][]combo // key kind + "/" + policy class
)

func policyClass(onFail string) string {
	if onFail == "" || onFail == "ciphertext" {
		return "ciphertext"
	}
	return onFail
}

func typedCombos() map[string][]combo {
	combosOnce.Do(func() {
		combosBy = map[string][]combo{}
		for _, kind := range []string{pgprog.KTyped, pgprog.KSearch, pgprog.KMask} {
			for _, env := range []string{"", "acrastruct", "acrablock"} {
				for _, dt := range []string{"str", "bytes", "int32", "int64"} {
					for _, of := range []string{"", "ciphertext", "default_value", "error"} {
						for _, byID := range []bool{false, true} {
							c := pgprog.ColSpec{Name: "c", Kind: kind, Envelope: env, DataType: dt, ByTypeID: byID, OnFail: of}
							if kind == pgprog.KMask {
								c.MaskPat, c.MaskLen, c.MaskSide = "xx", 1, "left"
							}
							if of == "default_value" {
								c.HasDefault = true
								c.Default = map[string]string{"str": "d", "bytes": "ZA==", "int32": "1", "int64": "1"}[dt]
							}
							y := pgprog.SchemaYAML([]pgprog.TableSpec{{Name: "t", Configured: true, Cols: []pgprog.ColSpec{{Name: "id", Kind: pgprog.KPlainInt}, c}}})
							if _, err := config.MapTableSchemaStoreFromConfig([]byte(y), false); err == nil {
								k := kind + "/" + policyClass(of)
								combosBy[k] = append(combosBy[k], combo{kind, env, dt, of, byID})
							}
						}
					}
				}
			}
		}
	})
	return combosBy
}

var defaultsOf = map[string][]string{
	"str":   {"default-str", "", "d'q", "дефолт ünï", "0", `\x41`, "%%%"},
	"bytes": {"ZGVmYXVsdA==", "AAEC/w==", "", "XHg0MQ==", "/w==", "JSUl"},
	"int32": {"77", "-2147483648", "2147483647", "0", "-1", "+5", "007"},
	"int64": {"77", "9223372036854775807", "-9223372036854775808", "-1", "0", "4294967296", "2147483648"},
}

func genProtectedCol(t *rapid.T, name string, policy string) pgprog.ColSpec {
	kind := rapid.SampledFrom([]string{pgprog.KTyped, pgprog.KTyped, pgprog.KTyped, pgprog.KTyped, pgprog.KSearch, pgprog.KMask}).Draw(t, name+".kind")
	if policy == "" {
		policy = rapid.SampledFrom([]string{"ciphertext", "default_value", "error"}).Draw(t, name+".policy")
	}
	list := typedCombos()[kind+"/"+policy]
	if len(list) == 0 {
		kind = pgprog.KTyped
		list = typedCombos()[kind+"/"+policy]
	}
	cb := rapid.SampledFrom(list).Draw(t, name+".combo")
	c := pgprog.ColSpec{Name: name, Kind: cb.Kind, Envelope: cb.Envelope, DataType: cb.DataType, OnFail: cb.OnFail, ByTypeID: cb.ByTypeID}
	if rapid.IntRange(0, 3).Draw(t, name+".explicit") == 0 {
		c.ClientID = "alice"
	}
	if c.Kind == pgprog.KMask {
		c.MaskPat = rapid.SampledFrom([]string{"xxxx", "*", "MASK"}).Draw(t, name+".pat")
		c.MaskLen = rapid.IntRange(0, 9).Draw(t, name+".mlen")
		c.MaskSide = rapid.SampledFrom([]string{"left", "right"}).Draw(t, name+".side")
	}
	if c.OnFail == "default_value" {
		c.HasDefault = true
		c.Default = rapid.SampledFrom(defaultsOf[c.DataType]).Draw(t, name+".default")
	}
	return c
}

// ---------------------------------------------------------------------------------------------
// case

// Cell is one stored value of a row: the logical value and the state it is stored in.
type Cell struct {
	V      pgprog.Val `json:"v"`
	State  string     `json:"state"`            // valid | damaged | foreign
	Damage int        `json:"damage,omitempty"` // damaged: which byte (counted from the end) is flipped
}

// Sel is one SELECT of the reader's session.
type Sel struct {
	Cols      []int  `json:"cols,omitempty"` // nil = *
	Ext       bool   `json:"ext,omitempty"`
	ResultFmt int16  `json:"result_fmt,omitempty"`
	Describe  string `json:"describe,omitempty"` // S | P (extended)
	MixedFmt  bool   `json:"mixed_fmt,omitempty"` // extended: one format code per column, alternating, starting with ResultFmt
	OmitFmt   bool   `json:"omit_fmt,omitempty"`  // extended, text: send no result format codes at all
	WhereID   *int64 `json:"where_id,omitempty"`
	Alias     bool   `json:"alias,omitempty"`    // table alias and column aliases
	ReuseOf   *int   `json:"reuse_of,omitempty"` // extended: bind and execute the statement prepared by that earlier select (same text) again
}

// SCase is a session case: one table, its rows, who reads, and the statements of the reading session.
type SCase struct {
	Table   pgprog.TableSpec `json:"table"`
	Rows    [][]Cell         `json:"rows"` // per row: cells of columns 1.. (column 0 is the key id = row index + 1)
	Reader  string           `json:"reader"`
	Selects []Sel            `json:"selects"`
	// Pipelined: the reader writes every request together with a probe SELECT in front of it (pgsess Config.Probes):
	// the proxy reads the request while the answer to the probe is on its way
	Pipelined bool `json:"pipelined,omitempty"`
}

func genSessionCase(t *rapid.T) SCase {
	c := SCase{Table: pgprog.TableSpec{Name: "typed", Configured: true}}
	var cols []pgprog.ColSpec
	shape := rapid.IntRange(0, 3).Draw(t, "shape")
	if shape == 0 {
		// one column per policy: the sequence "failure, then default, then ciphertext" is frequent
		for i, p := range rapid.Permutation([]string{"error", "default_value", "ciphertext"}).Draw(t, "policies") {
			cols = append(cols, genProtectedCol(t, fmt.Sprintf("p%d", i), p))
		}
	} else {
		n := rapid.IntRange(1, 4).Draw(t, "nprot")
		for i := 0; i < n; i++ {
			cols = append(cols, genProtectedCol(t, fmt.Sprintf("p%d", i), ""))
		}
	}
	np := rapid.IntRange(0, 2).Draw(t, "nplain")
	for i := 0; i < np; i++ {
		kind := rapid.SampledFrom([]string{pgprog.KPlainText, pgprog.KPlainBytea, pgprog.KPlainInt}).Draw(t, fmt.Sprintf("u%d.kind", i))
		pos := rapid.IntRange(0, len(cols)).Draw(t, fmt.Sprintf("u%d.pos", i))
		cols = append(cols[:pos], append([]pgprog.ColSpec{{Name: fmt.Sprintf("u%d", i), Kind: kind}}, cols[pos:]...)...)
	}
	c.Table.Cols = append([]pgprog.ColSpec{{Name: "id", Kind: pgprog.KPlainInt}}, cols...)
	c.Reader = rapid.SampledFrom([]string{"owner", "nokeys"}).Draw(t, "reader")
	// a session where the owner meets values it cannot reveal needs damaged / foreign cells: weight per case
	trouble := rapid.SampledFrom([]int{0, 1, 1, 3}).Draw(t, "trouble")
	nrows := rapid.SampledFrom([]int{1, 1, 2, 3}).Draw(t, "nrows")
	for r := 0; r < nrows; r++ {
		var row []Cell
		for ci, col := range c.Table.Cols[1:] {
			label := fmt.Sprintf("r%dc%d", r, ci+1)
			cell := Cell{V: pgprog.GenVal(t, col, label), State: "valid"}
			if col.Protected() {
				states := []string{"valid", "valid", "valid", "valid"}
				for i := 0; i < trouble; i++ {
					states = append(states, "foreign")
					if col.Kind != pgprog.KMask {
						// a masked value keeps a window of plaintext at one end: flipping a byte there is not damage (C11)
						states = append(states, "damaged")
					}
				}
				cell.State = rapid.SampledFrom(states).Draw(t, label+".state")
				if cell.State == "damaged" {
					cell.Damage = rapid.IntRange(0, 15).Draw(t, label+".damage")
				}
			}
			row = append(row, cell)
		}
		c.Rows = append(c.Rows, row)
	}
	nsel := rapid.IntRange(1, 4).Draw(t, "nsel")
	for i := 0; i < nsel; i++ {
		label := fmt.Sprintf("s%d", i)
		var s Sel
		want := rapid.SampledFrom([]int{1, 1, 1, 2, 3, 0}).Draw(t, label+".ncols") // 0 = *
		if want > 0 {
			perm := rapid.Permutation(seq(1, len(c.Table.Cols)-1)).Draw(t, label+".cols")
			if want > len(perm) {
				want = len(perm)
			}
			s.Cols = perm[:want]
			if rapid.IntRange(0, 3).Draw(t, label+".withid") == 0 {
				s.Cols = append([]int{0}, s.Cols...)
			}
		}
		s.Ext = rapid.Bool().Draw(t, label+".ext")
		if s.Ext {
			s.ResultFmt = int16(rapid.IntRange(0, 1).Draw(t, label+".rfmt"))
			s.Describe = rapid.SampledFrom([]string{"S", "P"}).Draw(t, label+".describe")
			switch rapid.IntRange(0, 5).Draw(t, label+".fmtcodes") {
			case 0:
				s.MixedFmt = true
			case 1:
				s.OmitFmt = s.ResultFmt == 0
			}
		}
		if rapid.Bool().Draw(t, label+".byid") {
			id := rapid.Int64Range(1, int64(nrows)).Draw(t, label+".id")
			s.WhereID = &id
		}
		s.Alias = rapid.IntRange(0, 3).Draw(t, label+".alias") == 0
		if s.Ext {
			var earlier []int
			for j, e := range c.Selects {
				if e.Ext && e.ReuseOf == nil {
					earlier = append(earlier, j)
				}
			}
			if len(earlier) > 0 && rapid.IntRange(0, 2).Draw(t, label+".reuse") == 0 {
				j := rapid.SampledFrom(earlier).Draw(t, label+".reuseof")
				s.ReuseOf, s.Cols, s.WhereID, s.Alias = &j, c.Selects[j].Cols, c.Selects[j].WhereID, c.Selects[j].Alias
			}
		}
		c.Selects = append(c.Selects, s)
	}
	c.Pipelined = rapid.IntRange(0, 3).Draw(t, "pipelined") == 0
	return c
}

func seq(from, to int) []int {
	var s []int
	for i := from; i <= to; i++ {
		s = append(s, i)
	}
	return s
}

// ---------------------------------------------------------------------------------------------
// oracle helpers

func encodings(m []byte) [][]byte {
	var oct strings.Builder
	for _, c := range m {
		fmt.Fprintf(&oct, `\%03o`, c)
	}
	return [][]byte{m, []byte(hex.EncodeToString(m)), []byte(strings.ToUpper(hex.EncodeToString(m))), []byte(base64.StdEncoding.EncodeToString(m)), []byte(oct.String())}
}

func containsMarker(hay, marker []byte) bool {
	for _, e := range encodings(marker) {
		if bytes.Contains(hay, e) {
			return true
		}
	}
	return false
}

func isEmpty(v pgprog.Val) bool { return !v.Null && len(v.B) == 0 }

var boundaryInts = map[string]bool{"0": true, "1": true, "-1": true, "2147483647": true, "-2147483648": true,
	"9223372036854775807": true, "-9223372036854775808": true}

// defaultLogical is the configured default as a logical value of the declared type.
func defaultLogical(col pgprog.ColSpec) (pgprog.Val, error) {
	switch col.DataType {
	case "str":
		return pgprog.Val{B: []byte(col.Default)}, nil
	case "bytes":
		b, err := base64.StdEncoding.DecodeString(col.Default)
		return pgprog.Val{B: b}, err
	case "int32":
		n, err := strconv.ParseInt(col.Default, 10, 32)
		return pgprog.Val{B: []byte(strconv.FormatInt(n, 10))}, err
	case "int64":
		n, err := strconv.ParseInt(col.Default, 10, 64)
		return pgprog.Val{B: []byte(strconv.FormatInt(n, 10))}, err
	}
	return pgprog.Val{}, fmt.Errorf("no declared type")
}

func fmtName(f int16) string {
	if f == 1 {
		return "binary"
	}
	return "text"
}

func typeName(col pgprog.ColSpec) string {
	n := col.DataType
	if col.ByTypeID {
		n += "#id"
	}
	if col.Kind != pgprog.KTyped {
		n += "@" + col.Kind
	}
	return n
}

type sessResult struct {
	vs           hx.Vs
	classes      map[string]bool
	nontrivial   bool
	inconclusive bool
}

type sessRun struct {
	c       SCase
	res     *sessResult
	stored  [][]pgsess.Value // per row, per column (as in the database after planting)
	clear   map[string]bool  // markers the reader legitimately sees
	suffix  string
	readerI string
}

func (r *sessRun) add(sig, format string, args ...any) {
	r.res.vs.Add(sig+r.suffix, format, args...)
}

func (r *sessRun) class(c string) { r.res.classes[c] = true }

// canReveal: the reader holds the keys the value was protected with and the stored value is intact.
// Values are protected for the column's configured client if there is one, else for the writing connection;
// they are revealed with the keys of the reading connection.
func (r *sessRun) canReveal(col pgprog.ColSpec, cell Cell) bool {
	if cell.State == "damaged" {
		return false
	}
	writer := "alice"
	if cell.State == "foreign" {
		writer = "bobby"
	}
	if col.ClientID != "" {
		writer = col.ClientID
	}
	return r.readerI == "alice" && writer == "alice"
}

func debugf(format string, args ...any) {
	if os.Getenv("VERIF_DEBUG") != "" {
		fmt.Printf(format, args...)
	}
}

// CheckSession runs the case through proxied sessions.
func CheckSession(c SCase) *sessResult {
	res := &sessResult{classes: map[string]bool{}}
	run := &sessRun{c: c, res: res, clear: map[string]bool{}, readerI: "alice"}
	if c.Reader == "nokeys" {
		run.readerI = "carol"
	}
	w := fix.TheWorld()
	tb := c.Table
	tables := []pgprog.TableSpec{tb}
	yaml := pgprog.SchemaYAML(tables)
	defs := pgprog.Defs(tables)
	debugf("CONFIG\n%s", yaml)
	timeout := func(err error, where string) bool {
		if errors.Is(err, pgsess.ErrTimeout) {
			res.inconclusive = true
			R.Note("inconclusive: i/o deadline in %s", where)
			return true
		}
		return false
	}

	// ---- writing: the owner writes everything but the foreign cells, bobby writes those
	sA, err := pgsess.Start(pgsess.Config{SchemaYAML: yaml, KeyStore: w.KS, ClientID: w.Alice, Tables: defs})
	if err != nil {
		if !timeout(err, "start of the writing session") {
			res.vs.Add("harness:start", "%v\n%s", err, yaml)
		}
		return res
	}
	defer sA.Close()
	store := sA.DB.Store
	var names []string
	for _, col := range tb.Cols {
		names = append(names, col.Name)
	}
	insert := func(s *pgsess.Session, idOff int, foreign bool, who string) bool {
		for ri, row := range c.Rows {
			any := !foreign
			lits := []string{strconv.Itoa(ri + 1 + idOff)}
			for ci, cell := range row {
				col := tb.Cols[ci+1]
				if (cell.State == "foreign") != foreign {
					lits = append(lits, "NULL")
					continue
				}
				any = true
				lits = append(lits, pgprog.Literal(cell.V, col.Logical(), 0, false))
			}
			if !any {
				continue
			}
			sql := "INSERT INTO " + tb.Name + " (" + strings.Join(names, ", ") + ") VALUES (" + strings.Join(lits, ", ") + ")"
			rep, err := s.Simple(sql)
			if err != nil {
				if !timeout(err, "insert by "+who) {
					res.vs.Add("harness:insert", "insert by %s broke the session: %v (%.200s)", who, err, sql)
				}
				return false
			}
			if len(rep.Errors) > 0 {
				res.vs.Add("harness:insert", "insert by %s answered with %q (%.200s)", who, rep.Errors, sql)
				return false
			}
		}
		return true
	}
	if !insert(sA, 0, false, "alice") {
		return res
	}
	hasForeign := false
	for _, row := range c.Rows {
		for _, cell := range row {
			hasForeign = hasForeign || cell.State == "foreign"
		}
	}
	if hasForeign {
		sB, err := pgsess.Start(pgsess.Config{SchemaYAML: yaml, KeyStore: w.KS, ClientID: w.Bobby, Tables: defs, Store: store})
		if err != nil {
			if !timeout(err, "start of bobby's session") {
				res.vs.Add("harness:start", "bobby: %v", err)
			}
			return res
		}
		ok := insert(sB, 1000, true, "bobby")
		sB.Close()
		if !ok {
			return res
		}
	}
	sA.Close()

	// ---- planting: move bobby's protected values into the owner's rows, damage what is to be damaged
	byID := map[string][]pgsess.Value{}
	for _, row := range store.Rows(tb.Name) {
		byID[string(row[0].B)] = row
	}
	var planted [][]pgsess.Value
	for ri, row := range c.Rows {
		mine := byID[strconv.Itoa(ri+1)]
		if mine == nil {
			res.vs.Add("harness:store", "row %d is not in the database after the inserts", ri+1)
			return res
		}
		mine = append([]pgsess.Value(nil), mine...)
		theirs := byID[strconv.Itoa(ri+1001)]
		for ci, cell := range row {
			col := tb.Cols[ci+1]
			if cell.State == "foreign" {
				if theirs == nil {
					res.vs.Add("harness:store", "bobby's row %d is not in the database", ri+1001)
					return res
				}
				mine[ci+1] = theirs[ci+1]
			}
			v := mine[ci+1]
			if col.Protected() && !cell.V.Null && len(cell.V.B) > 0 {
				if v.Null || len(v.B) < 32 || bytes.Contains(v.B, cell.V.B) && len(cell.V.B) >= 8 && col.Kind != pgprog.KMask {
					// C04's subject; here it is a precondition
					res.vs.Add("precondition:not-protected-in-store", "column %s (%s): the database holds %.40q for %.40q", col.Name, col.Kind, v.B, cell.V.B)
					return res
				}
				if cell.State == "damaged" {
					b := append([]byte(nil), v.B...)
					b[len(b)-1-cell.Damage%16] ^= 0x20
					mine[ci+1] = pgsess.Value{B: b}
				}
			}
		}
		planted = append(planted, mine)
	}
	store.SetRows(tb.Name, planted)
	run.stored = planted

	// markers the reader legitimately receives
	for _, row := range c.Rows {
		for ci, cell := range row {
			col := tb.Cols[ci+1]
			if mk := pgprog.Marker(cell.V); mk != nil && (!col.Protected() || col.Kind == pgprog.KMask || run.canReveal(col, cell)) {
				run.clear[string(mk)] = true
			}
		}
	}

	// ---- reading
	rid := w.Alice
	if c.Reader == "nokeys" {
		rid = w.Carol
	}
	run.class("reader:" + c.Reader)
	var probes []string
	if c.Pipelined {
		probes = pgsess.AutoProbes(defs)
		run.class("reader:pipelined")
	}
	sR, err := pgsess.Start(pgsess.Config{SchemaYAML: yaml, KeyStore: w.KS, ClientID: rid, Tables: defs, Store: store, Probes: probes})
	if err != nil {
		if !timeout(err, "start of the reading session") {
			res.vs.Add("harness:start", "reader: %v", err)
		}
		return res
	}
	defer sR.Close()
	afterError := false
	for si, sel := range c.Selects {
		if sel.ReuseOf != nil && (*sel.ReuseOf < 0 || *sel.ReuseOf >= si || !c.Selects[*sel.ReuseOf].Ext || !sel.Ext) {
			sel.ReuseOf = nil // (a shrunk case may have lost the statement it referred to)
		}
		if sel.ReuseOf != nil {
			prev := c.Selects[*sel.ReuseOf]
			sel.Cols, sel.WhereID, sel.Alias = prev.Cols, prev.WhereID, prev.Alias
		}
		cols := sel.Cols
		qual, list := "", "*"
		if sel.Alias {
			qual = "q."
			list = "q.*"
			run.class("select:alias")
		}
		if cols == nil {
			cols = seq(0, len(tb.Cols)-1)
			run.class("select:star")
		} else {
			var n []string
			for k, ci := range cols {
				name := qual + tb.Cols[ci].Name
				if sel.Alias && k%2 == 0 {
					name += fmt.Sprintf(" AS a%d", k)
				}
				n = append(n, name)
			}
			list = strings.Join(n, ", ")
		}
		sql := "SELECT " + list + " FROM " + tb.Name
		if sel.Alias {
			sql += " AS q"
		}
		if sel.WhereID != nil {
			sql += fmt.Sprintf(" WHERE %sid = %d", qual, *sel.WhereID)
		}
		var rep *pgsess.Reply
		fmts := make([]int16, len(cols)) // result format of each column
		proto := "simple"
		if sel.Ext {
			proto = "ext-" + sel.Describe
			codes := []int16{sel.ResultFmt}
			for k := range fmts {
				fmts[k] = sel.ResultFmt
			}
			switch {
			case sel.MixedFmt:
				codes = nil
				for k := range fmts {
					fmts[k] = (sel.ResultFmt + int16(k)) % 2
					codes = append(codes, fmts[k])
				}
				run.class("format-codes:per-column")
			case sel.OmitFmt && sel.ResultFmt == 0:
				codes = []int16{}
				run.class("format-codes:none")
			}
			e := pgsess.Ext{SQL: sql, StmtName: fmt.Sprintf("c19s%d", si), ResultFormats: codes,
				DescribeStmt: sel.Describe == "S", DescribePort: sel.Describe != "S"}
			var described *pgsess.Reply
			if sel.ReuseOf != nil {
				e.StmtName, e.SkipParse = fmt.Sprintf("c19s%d", *sel.ReuseOf), true
				run.class("prepared-statement:executed-again/describe-" + sel.Describe)
				if e.DescribeStmt {
					// describe the prepared statement in a request cycle of its own (as libpq's PQdescribePrepared does),
					// then bind and execute it: sent in one batch with the Bind, the proxy could see the Bind before or
					// after the database's answer to the Describe, and acra's randomness must not decide a verdict
					e.DescribeStmt = false
					msg, _ := (&pgproto3.Describe{ObjectType: 'S', Name: e.StmtName}).Encode(nil)
					msg, _ = (&pgproto3.Sync{}).Encode(msg)
					if err = sR.SendRaw(msg); err == nil {
						described, err = sR.Collect()
					}
				}
			}
			if err == nil {
				rep, err = sR.Extended(e)
			}
			if err == nil && described != nil {
				if len(described.Errors) > 0 {
					run.add("unexpected-error:describe-statement", "Describe of prepared statement %s was answered with %q", e.StmtName, described.Errors)
				}
				rep.Fields, rep.HaveFields = described.Fields, described.HaveFields
			}
		} else {
			rep, err = sR.Simple(sql)
		}
		if rep != nil {
			debugf("STMT %d %s fmt=%v %s\n   msgs=%v errors=%q\n", si, proto, fmts, sql, rep.Msgs, rep.Errors)
			for _, f := range rep.Fields {
				debugf("   field %s oid=%d fmt=%d\n", f.Name, f.DataTypeOID, f.Format)
			}
			for _, row := range rep.Rows {
				debugf("   row %.70q\n", row)
			}
		}
		run.suffix = ""
		if afterError {
			run.suffix = ":after-error-failure"
			run.class("after-error-failure")
		}
		if err != nil {
			if !timeout(err, fmt.Sprintf("statement %d", si)) {
				run.add("session-broken:"+proto, "statement %d (%s): %v", si, sql, err)
			}
			return res
		}
		run.class("proto:" + proto)
		for _, f := range fmts {
			run.class("fmt:" + fmtName(f))
			if f == 1 {
				res.nontrivial = true
			}
		}
		failed := run.checkStatement(si, sel, cols, sql, rep, fmts, proto)
		if failed {
			afterError = true
		}
	}
	run.suffix = ""
	// pipelined probes: a statement that was answered while the next one was being read must be described as it is
	// described alone
	for _, d := range sR.ProbeDiffs {
		run.add("pipelined-statement-described-with-settings-of-the-next:pg", "%s", d)
		break
	}

	// nothing the reader cannot reveal may appear anywhere in what it received
	_, recv := sR.ClientStreams()
	for _, row := range c.Rows {
		for ci, cell := range row {
			col := tb.Cols[ci+1]
			if !col.Protected() || col.Kind == pgprog.KMask || run.canReveal(col, cell) {
				continue
			}
			if mk := pgprog.Marker(cell.V); mk != nil && !run.clear[string(mk)] && containsMarker(recv, mk) {
				run.add("plaintext-to-reader-who-cannot-reveal:stream", "the bytes received by %s contain the plaintext marker of column %s (%s, %s)", run.readerI, col.Name, typeName(col), cell.State)
			}
		}
	}
	return res
}

// checkStatement evaluates one reply; it returns whether the statement was expected to fail (error policy).
func (r *sessRun) checkStatement(si int, sel Sel, cols []int, sql string, rep *pgsess.Reply, fmts []int16, proto string) bool {
	tb := r.c.Table
	var rows []int
	for ri := range r.c.Rows {
		if sel.WhereID == nil || *sel.WhereID == int64(ri+1) {
			rows = append(rows, ri)
		}
	}
	// the first row that holds a value the reader cannot reveal in a selected `error` column
	firstFail, failCol, resFmt := -1, pgprog.ColSpec{}, int16(0)
	for i, ri := range rows {
		for k, ci := range cols {
			if ci == 0 {
				continue
			}
			col, cell := tb.Cols[ci], r.c.Rows[ri][ci-1]
			if col.Protected() && col.Kind != pgprog.KMask && policyClass(col.OnFail) == "error" && !cell.V.Null && len(cell.V.B) > 0 && !r.canReveal(col, cell) {
				firstFail, failCol, resFmt = i, col, fmts[k]
				r.class(fmt.Sprintf("cell:%s/error/%s/cannot-reveal", col.DataType, fmtName(resFmt)))
				r.class(fmt.Sprintf("reader:%s/state:%s/cannot-reveal", r.c.Reader, cell.State))
				r.class("policy:error")
				break
			}
		}
		if firstFail >= 0 {
			break
		}
	}
	if len(rep.Msgs) == 0 || rep.Msgs[len(rep.Msgs)-1] != "Z" {
		r.add("no-ready-for-query:"+proto, "statement %d did not end with ReadyForQuery: %v", si, rep.Msgs)
	}
	sawE := false
	for _, m := range rep.Msgs {
		if m == "E" {
			sawE = true
		} else if m == "D" && sawE {
			r.add("row-after-error-response:"+proto, "statement %d: a DataRow follows the ErrorResponse: %v", si, rep.Msgs)
			break
		}
	}
	deliver := len(rows)
	if firstFail >= 0 {
		r.class("expect:statement-error")
		r.class("expect:statement-error/" + proto + "/" + fmtName(resFmt))
		r.res.nontrivial = true
		if firstFail > 0 {
			r.class("expect:statement-error/rows-before-the-failing-row")
		}
		if len(rep.Errors) == 0 {
			r.add("missing-error:"+typeName(failCol)+":"+fmtName(resFmt), "statement %d (%s): column %s has policy error and row %d cannot be revealed by %s, but no ErrorResponse arrived (%d rows, msgs %v)", si, sql, failCol.Name, rows[firstFail]+1, r.readerI, len(rep.Rows), rep.Msgs)
		}
		if len(rep.Rows) > firstFail {
			r.add("row-delivered-despite-error-policy:"+typeName(failCol)+":"+fmtName(resFmt), "statement %d (%s): column %s has policy error and result row %d cannot be revealed by %s, but %d DataRows reached the client: %.80q", si, sql, failCol.Name, firstFail, r.readerI, len(rep.Rows), rep.Rows[firstFail])
		}
		deliver = firstFail
		if len(rep.Rows) < deliver {
			// rows in front of the failing one may or may not have been sent: only what arrived is checked
			deliver = len(rep.Rows)
		}
	} else {
		if len(rep.Errors) > 0 {
			r.add("unexpected-error:"+proto, "statement %d (%s) by %s was answered with %q; nothing in it has the error policy and an unrevealable value", si, sql, r.readerI, rep.Errors)
			return false
		}
		if len(rep.Rows) != len(rows) {
			r.add("row-count:"+proto, "statement %d (%s) returned %d rows, the table has %d matching", si, sql, len(rep.Rows), len(rows))
			return false
		}
	}
	if deliver > 0 && !rep.HaveFields {
		r.add("no-row-description:"+proto, "statement %d (%s) returned rows without a RowDescription", si, sql)
		return firstFail >= 0
	}
	if rep.HaveFields && len(rep.Fields) != len(cols) {
		r.add("column-count:"+proto, "statement %d (%s) described %d columns, want %d", si, sql, len(rep.Fields), len(cols))
		return firstFail >= 0
	}
	for i := 0; i < deliver; i++ {
		ri := rows[i]
		raw := rep.Rows[i]
		if len(raw) != len(cols) {
			r.add("column-count:"+proto, "statement %d (%s) row has %d columns, want %d", si, sql, len(raw), len(cols))
			return firstFail >= 0
		}
		for k, ci := range cols {
			oid := rep.Fields[k].DataTypeOID
			col := tb.Cols[ci]
			if ci == 0 {
				got, _, err := pgprog.Decode(raw[k], oid, fmts[k])
				if err != nil || string(got.B) != strconv.Itoa(ri+1) {
					r.add("uncovered-column-changed:id", "statement %d (%s): key column came back as %.40q (oid %d, %v), want %d", si, sql, raw[k], oid, err, ri+1)
				}
				continue
			}
			r.checkCell(si, sql, col, r.c.Rows[ri][ci-1], r.stored[ri][ci], raw[k], oid, fmts[k], ri)
		}
	}
	return firstFail >= 0
}

func (r *sessRun) checkCell(si int, sql string, col pgprog.ColSpec, cell Cell, stored pgsess.Value, raw []byte, oid uint32, resFmt int16, ri int) {
	fn := fmtName(resFmt)
	where := fmt.Sprintf("statement %d (%s) row %d column %s", si, sql, ri+1, col.Name)
	if !col.Protected() {
		got, _, err := pgprog.Decode(raw, oid, resFmt)
		if err != nil || oid != col.Logical().OID() || got.Null != cell.V.Null || !bytes.Equal(got.B, cell.V.B) {
			r.add("uncovered-column-changed:"+col.Kind, "%s: got %.60q (oid %d, %v), stored %.60q", where, raw, oid, err, cell.V.B)
		}
		return
	}
	tn := typeName(col)
	declared := col.Logical().OID()
	policy := policyClass(col.OnFail)
	if cell.V.Null {
		r.class("value:null")
		if raw != nil {
			r.add("null-changed:"+tn+":"+fn, "%s (%s, policy %s): NULL came back as %.40q", where, tn, policy, raw)
		}
		return
	}
	if len(cell.V.B) == 0 {
		r.class("value:empty")
		if raw == nil || !(len(raw) == 0 || resFmt == 0 && string(raw) == `\x`) {
			r.add("empty-changed:"+tn+":"+fn, "%s (%s, policy %s): the empty value came back as %.40q (nil=%v)", where, tn, policy, raw, raw == nil)
		}
		return
	}
	reveal := r.canReveal(col, cell)
	outcome := "cannot-reveal"
	if reveal {
		outcome = "reveal"
	}
	r.class("type:" + col.DataType)
	if col.ByTypeID {
		r.class("declared-by:type-id")
	} else {
		r.class("declared-by:name")
	}
	r.class("kind:" + col.Kind)
	r.class("policy:" + policy)
	r.class("state:" + cell.State)
	r.class("envelope:" + col.Envelope)
	r.class(fmt.Sprintf("cell:%s/%s/%s/%s", col.DataType, policy, fn, outcome))
	r.class(fmt.Sprintf("reader:%s/state:%s/%s", r.c.Reader, cell.State, outcome))
	if (col.DataType == "int32" || col.DataType == "int64") && boundaryInts[string(cell.V.B)] {
		r.class("value:boundary-int")
		r.res.nontrivial = true
	}
	if strings.HasPrefix(string(cell.V.B), "-") {
		r.class("value:negative-int")
	}
	if col.DataType == "bytes" && !validUTF8(cell.V.B) {
		r.class("value:non-utf8-bytes")
	}
	if r.suffix != "" {
		r.class("after-error-failure/" + policy + "/" + outcome)
	}
	if !reveal {
		r.res.nontrivial = true
	}
	if col.Kind == pgprog.KMask && !reveal {
		// what a masked column shows to a reader that cannot reveal it is C11's subject
		r.class("mask:cannot-reveal(not asserted)")
		return
	}
	dflt, _ := defaultLogical(col)
	if reveal {
		if oid != declared {
			r.add("wrong-type-described:"+tn, "%s: described with oid %d, declared type %s is oid %d", where, oid, col.DataType, declared)
			return
		}
		got, _, err := pgprog.Decode(raw, declared, resFmt)
		if err == nil && !got.Null && bytes.Equal(got.B, cell.V.B) {
			return
		}
		// name the way it went wrong
		switch {
		case raw == nil:
			r.add("owner-got-null:"+tn+":"+fn, "%s: the owner received NULL for %.40q", where, cell.V.B)
		case bytes.Equal(raw, stored.B) || bytes.Equal(raw, pgsess.Encode(stored, pgsess.Bytea, 0)):
			r.add("owner-got-ciphertext:"+tn+":"+fn, "%s: the owner received the stored protected bytes instead of %.40q", where, cell.V.B)
		case col.HasDefault && err == nil && bytes.Equal(got.B, dflt.B):
			r.add("owner-got-default:"+tn+":"+fn, "%s: the owner received the default %.40q instead of %.40q", where, got.B, cell.V.B)
		case err != nil:
			r.add("undecodable-as-declared-type:"+tn+":"+fn, "%s: %.60q does not decode as %s in %s format: %v (value %.40q)", where, raw, col.DataType, fn, err, cell.V.B)
		default:
			r.add("owner-read-differs:"+tn+":"+fn, "%s: the owner received %.60q = %.60q, wrote %.60q", where, raw, got.B, cell.V.B)
		}
		return
	}
	// the reader cannot reveal the value
	if mk := pgprog.Marker(cell.V); mk != nil && !r.clear[string(mk)] && containsMarker(raw, mk) {
		r.add("plaintext-to-reader-who-cannot-reveal:"+tn+":"+fn, "%s (%s, policy %s): %s received the plaintext marker of a %s value", where, tn, policy, r.readerI, cell.State)
		return
	}
	switch policy {
	case "ciphertext":
		if bytes.Equal(raw, stored.B) || resFmt == 0 && bytes.Equal(raw, pgsess.Encode(stored, pgsess.Bytea, 0)) {
			return
		}
		r.add("ciphertext-policy-changed-bytes:"+tn+":"+fn, "%s (%s value, reader %s): received %d bytes %.50q, the database holds %d bytes %.50q", where, cell.State, r.readerI, len(raw), raw, len(stored.B), stored.B)
	case "default_value":
		if oid != declared {
			r.add("wrong-type-described:"+tn, "%s: described with oid %d, declared type %s is oid %d", where, oid, col.DataType, declared)
			return
		}
		got, _, err := pgprog.Decode(raw, declared, resFmt)
		if err != nil || got.Null || !bytes.Equal(got.B, dflt.B) {
			r.add("default-policy-wrong-value:"+tn+":"+fn, "%s (%s value, reader %s): received %.60q (decoded %.60q, %v), the configured default %q is %.60q", where, cell.State, r.readerI, raw, got.B, err, col.Default, dflt.B)
		}
	case "error":
		// rows in front of the failing row never contain such a cell; reaching this is an oracle bug
		r.add("harness:oracle", "%s: error-policy cell reached the per-cell check", where)
	}
}

func validUTF8(b []byte) bool { return strings.ToValidUTF8(string(b), "�") == string(b) }

// ---------------------------------------------------------------------------------------------

func TestTypedSessions(t *testing.T) {
	R.Rule("TestTypedSessions", "case = one table with 1-4 protected columns with a declared type (typed / searchable / masked; str|bytes|int32|int64 by name or by database type id; policy ciphertext|default_value(valid default of the type)|error; acrastruct|acrablock; sometimes an explicit client id) and 0-2 plain columns; 1-3 rows of generated values (boundary integers, non-UTF-8 bytes, empty, NULL), each stored value valid (written through the proxy by the owner), damaged (one byte of the stored protected value flipped inside the fake database) or foreign (written through bobby's session); reader = owner or a client without keys; 1-4 SELECTs in ONE session (column lists / *, [WHERE id], simple or extended protocol with Describe S|P, text or binary results). Oracle per statement and cell: owner+valid => RowDescription names the declared type and an independent codec decodes exactly the written value in the requested format; cannot reveal => ciphertext: exactly the stored bytes (raw or as the database encoded them; no assertion on the description), default_value: exactly the configured default as the declared type, error: ErrorResponse, no DataRow from the failing row on, ReadyForQuery - and every later statement of the session is judged by its own columns only; NULL stays NULL, empty stays empty; no plaintext marker ever reaches a reader that cannot reveal. Non-trivial = a selected value the reader cannot reveal, or a binary result, or a boundary integer")
	hx.Checks(50, 2000)
	rapid.Check(t, func(rt *rapid.T) {
		c := genSessionCase(rt)
		res := CheckSession(c)
		if res.inconclusive {
			rt.Skip("inconclusive")
		}
		cl := make([]string, 0, len(res.classes))
		for k := range res.classes {
			cl = append(cl, k)
		}
		sort.Strings(cl)
		R.Seen("TestTypedSessions", c, res.nontrivial, cl...)
		R.Report(rt, "TestTypedSessions", c, res.vs)
	})
}
