package c15

import (
	"encoding/json"
	"errors"
	"fmt"
	"os"
	"os/exec"
	"path/filepath"
	"testing"
	"time"

	"pgregory.net/rapid"

	"github.com/cossacklabs/acra/poison"

	"verif/internal/fix"
	"verif/internal/hx"
)

// TestPoisonRealCallbacks: the callbacks of the product, in the order AcraServer and AcraTranslator register them
// when poison_detect_enable, poison_run_script_file and poison_shutdown_enable are set: EmptyCallback (log entry),
// ExecuteScriptCallback(<operator's script>), StopCallback (os.Exit(1)). StopCallback ends the process, so every case
// runs in a child (this test binary re-executed): the child builds the keystore of the history, renders the column
// value, notes what the reference expects, and passes the value through the column chain of the proxies.
//
// Oracle: a value with an intact poison record of a surviving generation => the child is stopped (exit status 1)
// before the chain returns AND the operator's script was started (its marker file appears; the script is a separate
// process that outlives the child, the parent waits for the marker with a generous bound and calls a run without
// marker within the bound inconclusive only when the machine is evidently starved - see below); a value without
// such a record => the child returns from the chain normally, no script ran.

const realChildEnv = "VERIF_C15_REAL_CHILD"

type realNote struct {
	Expect   int    `json:"expect"`
	Returned bool   `json:"returned"`
	Err      string `json:"err,omitempty"`
	Harness  string `json:"harness,omitempty"`
}

func writeNote(dir string, n realNote) {
	b, _ := json.Marshal(n)
	os.WriteFile(filepath.Join(dir, "note.json.tmp"), b, 0o600)
	os.Rename(filepath.Join(dir, "note.json.tmp"), filepath.Join(dir, "note.json"))
}

// TestPoisonRealCallbacksChild is the child side; it does nothing unless the parent asked for it.
func TestPoisonRealCallbacksChild(t *testing.T) {
	dir := os.Getenv(realChildEnv)
	if dir == "" {
		t.Skip("child side of TestPoisonRealCallbacks")
	}
	raw, err := os.ReadFile(filepath.Join(dir, "case.json"))
	if err != nil {
		writeNote(dir, realNote{Harness: err.Error()})
		return
	}
	var c ColCase
	if err := json.Unmarshal(raw, &c); err != nil {
		writeNote(dir, realNote{Harness: err.Error()})
		return
	}
	e, err := build(c.Hist)
	if err != nil {
		writeNote(dir, realNote{Harness: "build: " + err.Error()})
		return
	}
	if e.diverged != "" {
		writeNote(dir, realNote{Expect: expOpen})
		return
	}
	r, err := e.render(c.Value)
	if err != nil {
		writeNote(dir, realNote{Harness: "render: " + err.Error()})
		return
	}
	exp := expectation(r, r.col)
	writeNote(dir, realNote{Expect: exp})
	cbs := poison.NewCallbackStorage()
	cbs.AddCallback(&poison.EmptyCallback{})
	cbs.AddCallback(poison.NewExecuteScriptCallback(filepath.Join(dir, "alarm.sh")))
	cbs.AddCallback(&poison.StopCallback{})
	_, cerr := fix.NewChain(e.ks, cbs).OnColumn(alice, append([]byte(nil), r.col...))
	n := realNote{Expect: exp, Returned: true}
	if cerr != nil {
		n.Err = cerr.Error()
	}
	writeNote(dir, n)
}

func CheckRealCallbacks(c ColCase) (vs hx.Vs, nontrivial bool, classes []string) {
	dir := fix.TempDir("c15-real-")
	defer os.RemoveAll(dir)
	marker := filepath.Join(dir, "marker")
	script := "#!/bin/sh\necho alarm >> " + marker + "\n"
	if err := os.WriteFile(filepath.Join(dir, "alarm.sh"), []byte(script), 0o700); err != nil {
		vs.Add("harness:script", "%v", err)
		return
	}
	raw, _ := json.Marshal(c)
	if err := os.WriteFile(filepath.Join(dir, "case.json"), raw, 0o600); err != nil {
		vs.Add("harness:case", "%v", err)
		return
	}
	cmd := exec.Command(os.Args[0], "-test.run", "^TestPoisonRealCallbacksChild$", "-test.count", "1")
	cmd.Env = append(os.Environ(), realChildEnv+"="+dir, "VERIF_OUT="+dir, "VERIF_REPLAY_FILE=")
	out, runErr := cmd.CombinedOutput()
	code := 0
	var ee *exec.ExitError
	if errors.As(runErr, &ee) {
		code = ee.ExitCode()
	} else if runErr != nil {
		R.Note("TestPoisonRealCallbacks: inconclusive: cannot run the child: %v", runErr)
		return vs, false, []string{"inconclusive:child-not-started"}
	}
	var note realNote
	if b, err := os.ReadFile(filepath.Join(dir, "note.json")); err != nil || json.Unmarshal(b, &note) != nil {
		R.Note("TestPoisonRealCallbacks: inconclusive: the child left no note (exit %d): %.300s", code, out)
		return vs, false, []string{"inconclusive:no-note"}
	}
	if note.Harness != "" {
		vs.Add("harness:child", "%s", note.Harness)
		return
	}
	classes = append(classes, "format:"+c.Hist.Format, []string{"expect:silent", "expect:alarm", "expect:open"}[note.Expect])
	markerSeen := func(wait time.Duration) bool {
		deadline := time.Now().Add(wait)
		for {
			if _, err := os.Stat(marker); err == nil {
				return true
			}
			if time.Now().After(deadline) {
				return false
			}
			time.Sleep(20 * time.Millisecond)
		}
	}
	switch note.Expect {
	case expFire:
		nontrivial = true
		if note.Returned || code != 1 {
			vs.Add("missed:real-callbacks", "value with an intact poison record: the process was not stopped by the callbacks (chain returned=%v err=%q, exit status %d)", note.Returned, note.Err, code)
			return
		}
		classes = append(classes, "stopped-before-delivery")
		if !markerSeen(60 * time.Second) {
			// the script is started with exec before StopCallback runs; a started process that does not get to its
			// first line within a minute means a starved machine, which a probe process shows as well
			probe := exec.Command("/bin/sh", "-c", "echo probe >> "+filepath.Join(dir, "probe"))
			t0 := time.Now()
			if perr := probe.Run(); perr != nil || time.Since(t0) > 5*time.Second {
				R.Note("TestPoisonRealCallbacks: inconclusive: machine starved (probe %v, %v)", perr, time.Since(t0))
				return vs, false, append(classes, "inconclusive:starved")
			}
			vs.Add("script-not-run-before-stop:real-callbacks", "the poison record was recognised and the process stopped (exit status 1), but the operator's script configured in front of the shutdown never ran: no marker within 60 s")
			return
		}
		classes = append(classes, "script-ran")
	case expNone:
		if code != 0 || !note.Returned {
			vs.Add("false-alarm:real-callbacks", "value without an intact poison record of this keystore: the child did not return from the chain (exit status %d, returned=%v): %.300s", code, note.Returned, out)
			return
		}
		if markerSeen(0) {
			vs.Add("false-alarm:real-callbacks", "value without an intact poison record of this keystore: the operator's script ran")
		}
	}
	return
}

func TestPoisonRealCallbacks(t *testing.T) {
	if os.Getenv(realChildEnv) != "" {
		t.Skip("parent side")
	}
	R.Rule("TestPoisonRealCallbacks", "column cases as TestPoisonColumn, run in a child process with the product's own callbacks in the order the services register them (EmptyCallback, ExecuteScriptCallback(script that appends to a marker file), StopCallback): a value with an intact poison record of a surviving generation must stop the child (exit status 1, chain never returns) and the script must have been started (marker appears); any other value must leave the child running and the script untouched. Non-trivial = an alarm is expected")
	hx.Checks(6, 60)
	rapid.Check(t, func(rt *rapid.T) {
		c := ColCase{Hist: genHist(rt), Value: genValue(rt, "v", 600)}
		vs, nt, cl := CheckRealCallbacks(c)
		R.Seen("TestPoisonRealCallbacks", c, nt, cl...)
		R.Report(rt, "TestPoisonRealCallbacks", c, vs)
	})
}

var _ = fmt.Sprintf
