package c15

import (
	"bytes"
	"encoding/binary"
	"encoding/hex"
	"errors"
	"fmt"
	"strconv"
	"strings"
	"sync"
	"testing"
	"time"

	"pgregory.net/rapid"

	"github.com/cossacklabs/acra/decryptor/base"
	"github.com/cossacklabs/acra/poison"

	"verif/internal/hx"
	"verif/internal/pgprog"
	"verif/internal/pgsess"
)

// Cell is the stored value of one bytea column of one planted row.
type Cell struct {
	Null  bool    `json:"null,omitempty"`
	Value []Piece `json:"value,omitempty"`
}

// SessCase plants rows directly in the database behind acra's real PostgreSQL proxy and reads every
// table through a session of Reader with intrusion callbacks configured.
type SessCase struct {
	Hist   Hist               `json:"hist"`
	Tables []pgprog.TableSpec `json:"tables"`
	// Rows[table][row][column]: cells of the columns stored as bytea (entries of other columns are ignored)
	Rows      [][][]Cell `json:"rows"`
	Reader    string     `json:"reader"` // alice | carol
	Mode      string     `json:"mode"`   // count: callback succeeds | error: callback fails
	Ext       bool       `json:"ext,omitempty"`
	ResultFmt int16      `json:"result_fmt,omitempty"`
	Star      bool       `json:"star,omitempty"`
	// Multi (simple protocol only): the read is the second statement of one Query message, behind a SELECT on the
	// same table that returns no rows
	Multi bool `json:"multi,omitempty"`
}

var sessKinds = []string{pgprog.KPlainBytea, pgprog.KPlainInt, pgprog.KPlainText, pgprog.KEnc, pgprog.KEnc, pgprog.KSearch, pgprog.KMask, pgprog.KMask, pgprog.KTyped}

func genSessCase(t *rapid.T) SessCase {
	c := SessCase{
		Hist:   genHist(t),
		Tables: pgprog.GenTables(t, sessKinds, "alice"),
		Reader: rapid.SampledFrom([]string{"alice", "carol"}).Draw(t, "reader"),
		Mode:   rapid.SampledFrom([]string{"count", "count", "error"}).Draw(t, "mode"),
		Ext:    rapid.Bool().Draw(t, "ext"),
		Star:   rapid.Bool().Draw(t, "star"),
	}
	if c.Ext {
		c.ResultFmt = int16(rapid.IntRange(0, 1).Draw(t, "rfmt"))
	} else {
		c.Multi = rapid.IntRange(0, 3).Draw(t, "multi") == 0
	}
	silent := rapid.IntRange(0, 4).Draw(t, "silent") == 0 // a session without any poison record
	for ti, tb := range c.Tables {
		var rows [][]Cell
		n := rapid.IntRange(0, 3).Draw(t, fmt.Sprintf("t%d.nrows", ti))
		if ti == 0 && n == 0 {
			n = 1
		}
		for ri := 0; ri < n; ri++ {
			row := make([]Cell, len(tb.Cols))
			for ci, col := range tb.Cols {
				if col.DBType() != pgsess.Bytea {
					continue
				}
				label := fmt.Sprintf("t%dr%dc%d", ti, ri, ci)
				switch rapid.IntRange(0, 5).Draw(t, label+".what") {
				case 0:
					row[ci] = Cell{Null: true}
				case 1, 2:
					// ordinary content only
					row[ci] = Cell{Value: []Piece{genFiller(t, label+".f", 512)}}
				default:
					if silent {
						row[ci] = Cell{Value: []Piece{genFiller(t, label+".f", 512), genFiller(t, label+".g", 64)}}
					} else {
						row[ci] = Cell{Value: genValue(t, label, 512)}
					}
				}
			}
			rows = append(rows, row)
		}
		c.Rows = append(c.Rows, rows)
	}
	return c
}

// orderCallback succeeds and notes how many bytes the client had received when it ran.
type orderCallback struct {
	mu    sync.Mutex
	sess  *pgsess.Session
	snaps []int
	fail  bool
}

func (c *orderCallback) Call() error {
	c.mu.Lock()
	defer c.mu.Unlock()
	n := -1
	if c.sess != nil {
		n = c.sess.RecvLen()
	}
	c.snaps = append(c.snaps, n)
	if c.fail {
		return errBoom
	}
	return nil
}

func (c *orderCallback) calls() []int {
	c.mu.Lock()
	defer c.mu.Unlock()
	return append([]int(nil), c.snaps...)
}

// dataRows walks the backend messages in stream[from:] and returns the start offset and the body of
// every complete DataRow.
func dataRows(stream []byte, from int) (offs []int, bodies [][]byte) {
	i := from
	for i+5 <= len(stream) {
		ln := int(binary.BigEndian.Uint32(stream[i+1 : i+5]))
		if ln < 4 || i+1+ln > len(stream) {
			break
		}
		if stream[i] == 'D' {
			offs = append(offs, i)
			bodies = append(bodies, stream[i+5:i+1+ln])
		}
		i += 1 + ln
	}
	return
}

// keyOf decodes an int4 key column value.
func keyOf(v []byte, format int16) (int, bool) {
	if format == 1 {
		if len(v) != 4 {
			return 0, false
		}
		return int(int32(binary.BigEndian.Uint32(v))), true
	}
	n, err := strconv.Atoi(string(v))
	return n, err == nil
}

// rowID decodes the first column (the int4 key) of a DataRow body.
func rowID(body []byte, format int16) (int, bool) {
	if len(body) < 6 {
		return 0, false
	}
	ln := int(int32(binary.BigEndian.Uint32(body[2:6])))
	if ln < 0 || 6+ln > len(body) {
		return 0, false
	}
	return keyOf(body[6:6+ln], format)
}

type plantedCell struct {
	r   rendered
	exp int
}

func sameReply(a, b *pgsess.Reply) string {
	if fmt.Sprint(a.Msgs) != fmt.Sprint(b.Msgs) {
		return fmt.Sprintf("message sequence %v vs %v", a.Msgs, b.Msgs)
	}
	if fmt.Sprint(a.Errors) != fmt.Sprint(b.Errors) {
		return fmt.Sprintf("errors %q vs %q", a.Errors, b.Errors)
	}
	if len(a.Fields) != len(b.Fields) {
		return "field count"
	}
	for i := range a.Fields {
		if a.Fields[i].DataTypeOID != b.Fields[i].DataTypeOID {
			return fmt.Sprintf("type of column %d: %d vs %d", i, a.Fields[i].DataTypeOID, b.Fields[i].DataTypeOID)
		}
	}
	if len(a.Rows) != len(b.Rows) {
		return fmt.Sprintf("row count %d vs %d", len(a.Rows), len(b.Rows))
	}
	for i := range a.Rows {
		for j := range a.Rows[i] {
			if j >= len(b.Rows[i]) || !bytes.Equal(a.Rows[i][j], b.Rows[i][j]) || (a.Rows[i][j] == nil) != (b.Rows[i][j] == nil) {
				return fmt.Sprintf("row %d column %d: %.40q vs %.40q", i, j, a.Rows[i][j], b.Rows[i][j])
			}
		}
	}
	return ""
}

const sessWait = 20 * time.Second

// CheckSession runs the case.
func CheckSession(c SessCase) (vs hx.Vs, nontrivial bool, classes []string) {
	e, err := build(c.Hist)
	if err != nil {
		if e != nil {
			e.close()
		}
		vs.Add("harness:build", "%v", err)
		return
	}
	defer e.close()
	classes = append(classes, "format:"+c.Hist.Format, "reader:"+c.Reader, "mode:"+c.Mode)
	if e.diverged != "" {
		R.Class("TestPoisonSessions", "excluded:keystore-after-destroy:"+e.diverged+":"+c.Hist.Format)
		return vs, false, append(classes, "excluded:keystore-after-destroy")
	}
	if c.Ext {
		classes = append(classes, fmt.Sprintf("extended/result-format-%d", c.ResultFmt))
	} else {
		classes = append(classes, "simple/result-format-0")
		if c.Multi {
			classes = append(classes, "simple/second-statement-of-a-multi-statement-query")
		}
	}
	defs := pgprog.Defs(c.Tables)
	yaml := pgprog.SchemaYAML(c.Tables)
	store := pgsess.NewStore(defs)
	searchable := false // a searchable column anywhere puts the HMAC processor into every column's chain
	for _, tb := range c.Tables {
		for _, col := range tb.Cols {
			searchable = searchable || (tb.Configured && col.Kind == pgprog.KSearch)
		}
	}
	// plant the rows
	planted := make([][][]plantedCell, len(c.Tables))
	totalFire, totalOpen := 0, 0
	for ti, tb := range c.Tables {
		if ti >= len(c.Rows) {
			break
		}
		var rows [][]pgsess.Value
		for ri, crow := range c.Rows[ti] {
			row := make([]pgsess.Value, len(tb.Cols))
			prow := make([]plantedCell, len(tb.Cols))
			for ci, col := range tb.Cols {
				switch {
				case ci == 0:
					row[ci] = pgsess.Value{B: []byte(strconv.Itoa(ri + 1))}
				case col.DBType() == pgsess.Bytea && ci < len(crow) && !crow[ci].Null && len(crow[ci].Value) > 0:
					r, rerr := e.render(crow[ci].Value)
					if rerr != nil {
						vs.Add("harness:render", "%v", rerr)
						return
					}
					row[ci] = pgsess.Value{B: r.col}
					exp := expectation(r, r.col)
					if exp == expFire && col.Kind == pgprog.KMask && tb.Configured && everyRecordOverlapped(r) {
						// known finding missed:masked-column:record-overlapped-by-envelope-shaped-bytes (shown by TestPoisonColumn)
						exp = expOpen
						classes = append(classes, "excluded:masked-column-record-overlapped")
					}
					if exp == expFire && searchable && cutByHashLikePrefix(r) {
						// the class of the fixed finding missed:search-column:record-cut-by-hash-like-prefix: asserted like any other
						classes = append(classes, "record-cut-by-hash-like-prefix")
					}
					prow[ci] = plantedCell{r, exp}
					where := "configured:" + col.Kind
					if !tb.Configured || !col.Protected() {
						where = "unconfigured:" + col.Kind
					}
					switch exp {
					case expFire:
						totalFire++
						classes = append(classes, "alarm-cell:"+where)
						classes = append(classes, r.classes...)
						if r.firstAt > 0 || r.rotated {
							nontrivial = true
						}
					case expOpen:
						totalOpen++
					default:
						classes = append(classes, "silent-cell:"+where)
						if holdsContainer(r.col) {
							nontrivial = true
						}
					}
				case col.DBType() == pgsess.Int4 || col.DBType() == pgsess.Int8:
					row[ci] = pgsess.Value{B: []byte("7")}
				case col.DBType() == pgsess.Text:
					row[ci] = pgsess.Value{B: []byte("note")}
				default:
					row[ci] = pgsess.Value{Null: true}
				}
			}
			rows = append(rows, row)
			planted[ti] = append(planted[ti], prow)
		}
		store.SetRows(tb.Name, rows)
	}
	if totalFire == 0 && totalOpen == 0 {
		classes = append(classes, "session:silent")
	} else if totalFire > 0 {
		classes = append(classes, "session:alarm")
	}

	cb := &orderCallback{fail: c.Mode == "error"}
	cbs := poison.NewCallbackStorage()
	cbs.AddCallback(cb)
	rid := []byte(c.Reader)
	start := func(callbacks base.PoisonRecordCallbackStorage) (*pgsess.Session, error) {
		return pgsess.Start(pgsess.Config{SchemaYAML: yaml, KeyStore: e.ks, ClientID: rid, Tables: defs, Store: store, Callbacks: callbacks})
	}
	sA, err := start(cbs)
	if err != nil {
		vs.Add("harness:start", "%v\n%s", err, yaml)
		return
	}
	defer sA.Close()
	cb.mu.Lock()
	cb.sess = sA
	cb.mu.Unlock()
	sB, err := start(nil)
	if err != nil {
		vs.Add("harness:start", "%v", err)
		return
	}
	defer sB.Close()

	send := func(s *pgsess.Session, ti int) error {
		tb := c.Tables[ti]
		sql := "SELECT * FROM " + tb.Name
		if !c.Star {
			var names []string
			for _, col := range tb.Cols {
				names = append(names, col.Name)
			}
			sql = "SELECT " + strings.Join(names, ", ") + " FROM " + tb.Name
		}
		if c.Ext {
			return s.SendExtended(pgsess.Ext{SQL: sql, StmtName: fmt.Sprintf("q%d", ti), ResultFormats: []int16{c.ResultFmt}, DescribePort: true})
		}
		if c.Multi && len(tb.Cols) > 0 {
			sql = "SELECT " + tb.Cols[0].Name + " FROM " + tb.Name + " WHERE " + tb.Cols[0].Name + " = -1; " + sql
		}
		return s.SendQuery(sql)
	}
	// misses of the multi-statement class carry their own signature
	multi := func(sig string) string {
		if c.Multi && !c.Ext {
			return sig + ":multi-statement"
		}
		return sig
	}
	missed := func() string { return multi("missed:session") }
	type result struct {
		rep *pgsess.Reply
		err error
	}
	// run waits for the reply or for the proxy to give up (then acra-server would close the connection)
	run := func(s *pgsess.Session, ti int) (rep *pgsess.Reply, died *base.ProxyError, err error) {
		if err := send(s, ti); err != nil {
			return nil, nil, err
		}
		ch := make(chan result, 1)
		go func() {
			rep, err := s.Collect()
			ch <- result{rep, err}
		}()
		select {
		case r := <-ch:
			if r.err != nil && !errors.Is(r.err, pgsess.ErrTimeout) {
				// the harness closes the connections on the first proxy error, as acra-server does: the error that
				// ended the session arrives right after
				select {
				case pe := <-s.ProxyErrs:
					return r.rep, &pe, nil
				case <-time.After(2 * time.Second):
				}
			}
			return r.rep, nil, r.err
		case pe := <-s.ProxyErrs:
			s.HangUp()
			select {
			case r := <-ch:
				return r.rep, &pe, nil
			case <-time.After(sessWait):
				return nil, &pe, pgsess.ErrTimeout
			}
		case <-time.After(sessWait):
			return nil, nil, pgsess.ErrTimeout
		}
	}
	for ti, tb := range c.Tables {
		if ti >= len(planted) || len(planted[ti]) == 0 {
			continue
		}
		// baseline: no callbacks configured
		repB, diedB, err := run(sB, ti)
		if errors.Is(err, pgsess.ErrTimeout) {
			R.Note("inconclusive: deadline in baseline session")
			return vs, false, append(classes, "inconclusive")
		}
		if err != nil || diedB != nil {
			// the proxy gives up on this result set even without callbacks (other properties' business)
			return vs, false, append(classes, "baseline-session-broken")
		}
		before := len(cb.calls())
		from := sA.RecvLen()
		repA, diedA, err := run(sA, ti)
		if errors.Is(err, pgsess.ErrTimeout) {
			R.Note("inconclusive: deadline in session with callbacks")
			return vs, false, append(classes, "inconclusive")
		}
		if err != nil {
			vs.Add("session-broken", "session with callbacks on table %s: %v", tb.Name, err)
			return
		}
		snaps := cb.calls()[before:]
		_, recv := sA.ClientStreams()
		offs, bodies := dataRows(recv, from)
		// rows the baseline delivered, by key
		deliveredB := map[int]bool{}
		for _, row := range repB.Rows {
			if len(row) > 0 {
				if id, ok := keyOf(row[0], c.ResultFmt); ok {
					deliveredB[id] = true
				}
			}
		}
		firesIn := func(id int) (fire, open int) {
			if id < 1 || id > len(planted[ti]) {
				return 0, 0
			}
			for _, pc := range planted[ti][id-1] {
				switch pc.exp {
				case expFire:
					fire++
				case expOpen:
					open++
				}
			}
			return
		}
		// every delivered row with poison records: the callbacks ran before the client got its first byte
		cum := 0
		for k, off := range offs {
			id, ok := rowID(bodies[k], c.ResultFmt)
			if !ok {
				vs.Add("harness:rowid", "cannot decode the key of a delivered row")
				return
			}
			fire, _ := firesIn(id)
			if fire == 0 {
				continue
			}
			cum += fire
			if c.Mode == "error" {
				vs.Add(multi("poison-delivered-despite-failing-callback:session"), "table %s row %d holds %d poison record cell(s) and reached the client although the callback fails (callback ran %d times)", tb.Name, id, fire, len(snaps))
				break
			}
			early := 0
			for _, s := range snaps {
				if s <= off {
					early++
				}
			}
			if early < cum {
				sig := missed()
				if len(snaps) >= cum {
					sig = "callback-after-delivery:session"
				}
				vs.Add(sig, "table %s row %d (poison record cells up to here: %d) was delivered at client stream offset %d; callback invocations before that: %d of %d (client had received %v bytes at each invocation)", tb.Name, id, cum, off, early, len(snaps), snaps)
				break
			}
		}
		if c.Mode == "error" {
			// no live record in what the client received
			got := recv[from:]
			for _, prow := range planted[ti] {
				for _, pc := range prow {
					if pc.exp != expFire {
						continue
					}
					for _, rec := range append(append([][]byte{}, pc.r.liveContainers...), pc.r.liveRaw...) {
						if bytes.Contains(got, rec) || bytes.Contains(got, []byte(hex.EncodeToString(rec))) {
							vs.Add(multi("poison-delivered-despite-failing-callback:session"), "the bytes the client received for table %s contain a poison record although the callback fails", tb.Name)
						}
					}
				}
			}
			mustFire := false
			for id := range deliveredB {
				f, _ := firesIn(id)
				mustFire = mustFire || f > 0
			}
			if mustFire && len(snaps) == 0 {
				vs.Add(missed(), "table %s: a row with a poison record is delivered without callbacks, and the failing callback never ran", tb.Name)
			}
			if len(snaps) > 0 {
				if diedA == nil {
					vs.Add("callback-error-lost:session", "the callback failed %d times and the session went on to ReadyForQuery (%v)", len(snaps), repA.Msgs)
				} else if !errors.Is(*diedA, errBoom) {
					vs.Add("callback-error-lost:session", "the callback failed, the proxy reported %v", *diedA)
				}
				classes = append(classes, "session:ended-by-callback-error")
				break // the connection is gone
			}
			if diedA != nil {
				vs.Add("session-broken", "the proxy gave up (%v) although no callback ran and the baseline session went through", *diedA)
				return
			}
		}
		if c.Mode == "count" || len(snaps) == 0 {
			if diedA != nil {
				vs.Add("session-broken", "the proxy gave up (%v) with a succeeding callback; the baseline session went through", *diedA)
				return
			}
			if d := sameReply(repA, repB); d != "" {
				vs.Add("callbacks-changed-data:session", "table %s: reply with callbacks differs from the reply without: %s", tb.Name, d)
			}
			// a row the baseline delivers holds a poison record: the callback must have run
			need := 0
			for id := range deliveredB {
				f, _ := firesIn(id)
				need += f
			}
			if c.Mode == "count" && len(snaps) < need {
				vs.Add(missed(), "table %s: %d poison record cell(s) in delivered rows, callback ran %d times", tb.Name, need, len(snaps))
			}
		}
	}
	if totalFire == 0 && totalOpen == 0 && len(cb.calls()) != 0 {
		vs.Add("false-alarm:session", "no cell holds an intact poison record of this keystore: callback ran %d times", len(cb.calls()))
	}
	return
}

func TestPoisonSessions(t *testing.T) {
	R.Rule("TestPoisonSessions", "keystore and poison-key history as in TestPoisonColumn; generated encryptor configuration (1-2 configured tables with columns plain/enc/search/mask/typed + one table the configuration does not mention); 1-3 rows per table planted directly in the fake database, every bytea column holding NULL, ordinary content or a value of TestPoisonColumn's shapes; every table is read (SELECT * / column list, simple or extended protocol, text or binary results) through acra's real PostgreSQL proxy by alice or carol twice: without callbacks (baseline) and with a callback that either succeeds and records how many bytes the client had received when it ran, or fails. Oracle: for every delivered DataRow holding poison records the callback ran before the client received the first byte of that row; with a failing callback no such row (and no record bytes) reaches the client and the proxy reports the callback's error; sessions without poison records never invoke the callback; replies with a succeeding callback equal the baseline. Non-trivial = as TestPoisonColumn")
	hx.Checks(80, 1200)
	rapid.Check(t, func(rt *rapid.T) {
		c := genSessCase(rt)
		vs, nt, cl := CheckSession(c)
		R.Seen("TestPoisonSessions", c, nt, cl...)
		R.Report(rt, "TestPoisonSessions", c, vs)
	})
}
