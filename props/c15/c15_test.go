// Package c15: poison records always raise the alarm, ordinary data never does.
package c15

import (
	"bytes"
	"encoding/binary"
	"encoding/json"
	"errors"
	"fmt"
	"os"
	"strings"
	"testing"

	"pgregory.net/rapid"

	"github.com/cossacklabs/acra/acrablock"
	"github.com/cossacklabs/acra/cmd/acra-translator/common"
	"github.com/cossacklabs/acra/crypto"
	"github.com/cossacklabs/acra/decryptor/base"
	encryptor "github.com/cossacklabs/acra/encryptor/base"
	"github.com/cossacklabs/acra/encryptor/base/config"
	"github.com/cossacklabs/acra/keystore"
	"github.com/cossacklabs/acra/masking"
	"github.com/cossacklabs/acra/poison"

	"verif/internal/fix"
	"verif/internal/gen"
	"verif/internal/hx"
)

var R = hx.New("C15")

func TestMain(m *testing.M) { os.Exit(R.Main(m)) }

// ---------------------------------------------------------------------------------------------
// poison-key history

// Destroy is one destruction of a rotated poison key by the index its listing row shows
// (2 = oldest surviving rotated key), resolved modulo the number of surviving rotated keys.
type Destroy struct {
	Kind  string `json:"kind"` // acrastruct (key pair) | acrablock (symmetric key)
	Index int    `json:"index"`
}

// Hist is a poison-key history on a fresh keystore of one format: Pair / Sym generations of the poison
// key pair / symmetric key are created one after the other (each later one rotates the previous one);
// one poison record of DataLen random bytes is made right after every generation; then the listed
// rotated keys are destroyed.
type Hist struct {
	Format  string    `json:"format"` // v1 | v2
	Pair    int       `json:"pair"`   // 1..4 generations
	Sym     int       `json:"sym"`    // 1..4 generations
	DataLen int       `json:"data_len"`
	Destroy []Destroy `json:"destroy,omitempty"`
}

func genHist(t *rapid.T) Hist {
	h := Hist{
		Format:  rapid.SampledFrom([]string{"v1", "v2"}).Draw(t, "format"),
		Pair:    rapid.SampledFrom([]int{1, 1, 2, 2, 3, 4}).Draw(t, "pair"),
		Sym:     rapid.SampledFrom([]int{1, 1, 2, 2, 3, 4}).Draw(t, "sym"),
		DataLen: rapid.SampledFrom([]int{1, 2, 16, 33, 100, 100, 255, 1000}).Draw(t, "datalen"),
	}
	// a keystore with one kind of poison key only (what acra-poisonrecordmaker leaves behind on a fresh keystore,
	// or a destroyed poison key): records of the kind that exists must still raise the alarm
	switch rapid.SampledFrom([]string{"", "", "", "", "pair-only", "sym-only"}).Draw(t, "only") {
	case "pair-only":
		h.Sym = 0
	case "sym-only":
		h.Pair = 0
	}
	if rapid.IntRange(0, 3).Draw(t, "destroys") == 0 {
		n := rapid.IntRange(1, 2).Draw(t, "ndestroy")
		for i := 0; i < n; i++ {
			h.Destroy = append(h.Destroy, Destroy{Kind: rapid.SampledFrom(fix.Kinds).Draw(t, fmt.Sprintf("dkind%d", i)), Index: rapid.IntRange(0, 5).Draw(t, fmt.Sprintf("dindex%d", i))})
		}
	}
	return h
}

// poisonKS is what both keystore formats offer for poison keys.
type poisonKS interface {
	keystore.ServerKeyStore
	keystore.PoisonKeyStorageAndGenerator
	DestroyRotatedPoisonKeyPair(index int) error
	DestroyRotatedPoisonSymmetricKey(index int) error
}

// env is the fixture of one case.
type env struct {
	ks    poisonKS
	w     *fix.World
	recs  map[string][][]byte // kind -> generation -> poison record (serialized container)
	alive map[string][]bool
	// diverged: after a destruction the keystore does not hold exactly the keys the history says
	// (keystore defects found by property C06); such cases are excluded and counted.
	diverged string
	dir      string
	format   string
}

func (e *env) close() {
	if e.dir != "" {
		os.RemoveAll(e.dir)
	}
}

var (
	alice = []byte("alice")
	bobby = []byte("bobby")
	carol = []byte("carol")
)

// build creates the keystore, the ordinary clients and the poison-key history.
func build(h Hist) (e *env, err error) {
	fix.TheWorld() // registry of envelope handlers (process-global) and the keystore of "somebody else"
	e = &env{recs: map[string][][]byte{}, alive: map[string][]bool{}, format: h.Format}
	defer func() {
		if p := recover(); p != nil {
			e.close()
			e, err = nil, fmt.Errorf("building the fixture panicked: %v", p)
		}
	}()
	switch h.Format {
	case "v1":
		e.dir = fix.TempDir("verif-c15-")
		e.ks = fix.V1(e.dir, keystore.WithoutCache)
	case "v2":
		ks, _ := fix.V2Mem()
		e.ks = ks
	default:
		return nil, fmt.Errorf("format %q", h.Format)
	}
	fix.GenClientKeys(e.ks, alice)
	fix.GenClientKeys(e.ks, bobby)
	e.w = &fix.World{KS: e.ks, Alice: alice, Bobby: bobby, Carol: carol, Reg: crypto.NewRegistryHandler(e.ks)}
	captured := map[string][][]byte{}
	for g := 0; g < h.Pair; g++ {
		if err := e.ks.GeneratePoisonKeyPair(); err != nil {
			return e, err
		}
		kp, err := e.ks.GetPoisonKeyPair()
		if err != nil {
			return e, err
		}
		captured[fix.KindStruct] = append(captured[fix.KindStruct], append([]byte(nil), kp.Private.Value...))
		rec, err := poison.CreatePoisonRecord(e.ks, h.DataLen)
		if err != nil {
			return e, err
		}
		e.recs[fix.KindStruct] = append(e.recs[fix.KindStruct], rec)
		e.alive[fix.KindStruct] = append(e.alive[fix.KindStruct], true)
	}
	for g := 0; g < h.Sym; g++ {
		if err := e.ks.GeneratePoisonSymmetricKey(); err != nil {
			return e, err
		}
		k, err := e.ks.GetPoisonSymmetricKey()
		if err != nil {
			return e, err
		}
		captured[fix.KindBlock] = append(captured[fix.KindBlock], append([]byte(nil), k...))
		rec, err := poison.CreateSymmetricPoisonRecord(e.ks, h.DataLen)
		if err != nil {
			return e, err
		}
		e.recs[fix.KindBlock] = append(e.recs[fix.KindBlock], rec)
		e.alive[fix.KindBlock] = append(e.alive[fix.KindBlock], true)
	}
	if len(h.Destroy) == 0 {
		return e, nil
	}
	for _, d := range h.Destroy {
		al := e.alive[d.Kind]
		// surviving rotated generations, oldest first = listing rows 2, 3, ...
		var rotated []int
		for g := 0; g < len(al)-1; g++ {
			if al[g] {
				rotated = append(rotated, g)
			}
		}
		if len(rotated) == 0 {
			continue
		}
		row := d.Index % len(rotated)
		var derr error
		func() {
			defer func() {
				if p := recover(); p != nil {
					derr = fmt.Errorf("panic: %v", p)
				}
			}()
			if d.Kind == fix.KindStruct {
				derr = e.ks.DestroyRotatedPoisonKeyPair(row + 2)
			} else {
				derr = e.ks.DestroyRotatedPoisonSymmetricKey(row + 2)
			}
		}()
		if derr != nil {
			e.diverged = "destroy-failed"
			return e, nil
		}
		al[rotated[row]] = false
	}
	// does the keystore hold exactly the surviving keys? (the key-history property itself is C06's)
	var got map[string][][]byte
	func() {
		defer func() {
			if p := recover(); p != nil {
				e.diverged = "all-keys-read-panicked"
			}
		}()
		got = map[string][][]byte{}
		privs, err := e.ks.GetPoisonPrivateKeys()
		if err != nil {
			e.diverged = "all-keys-read-failed"
			return
		}
		for _, p := range privs {
			got[fix.KindStruct] = append(got[fix.KindStruct], p.Value)
		}
		syms, err := e.ks.GetPoisonSymmetricKeys()
		if err != nil {
			e.diverged = "all-keys-read-failed"
			return
		}
		got[fix.KindBlock] = syms
	}()
	if e.diverged != "" {
		return e, nil
	}
	for _, kind := range fix.Kinds {
		want := 0
		for g, k := range captured[kind] {
			has := false
			for _, x := range got[kind] {
				has = has || bytes.Equal(x, k)
			}
			if has != e.alive[kind][g] {
				e.diverged = "wrong-key-destroyed"
			}
			if e.alive[kind][g] {
				want++
			}
		}
		if want != len(got[kind]) {
			e.diverged = "wrong-key-destroyed"
		}
	}
	return e, nil
}

// ---------------------------------------------------------------------------------------------
// column content

// Edit damages an envelope: flip bit Bit of byte Pos, cut Pos+1 bytes off the end, or overwrite a
// structural field. Positions are taken modulo the envelope length.
type Edit struct {
	Op    string `json:"op"` // flip | trunc | field
	Pos   int    `json:"pos,omitempty"`
	Bit   int    `json:"bit,omitempty"`
	Field string `json:"field,omitempty"`
	Val   uint64 `json:"val,omitempty"`
}

// Piece is one chunk of a column value.
type Piece struct {
	Raw gen.Hex `json:"raw,omitempty"`
	// Env: envelope "<who>/<kind>/<form>" of an ordinary client holding Plain.
	Env   string  `json:"env,omitempty"`
	Plain gen.Hex `json:"plain,omitempty"`
	// Poison: "<kind>/<form>" (form container | raw) poison record of generation Gen (modulo the history's
	// length); Foreign: made with the poison keys of another keystore.
	Poison  string `json:"poison,omitempty"`
	Gen     int    `json:"gen,omitempty"`
	Foreign bool   `json:"foreign,omitempty"`
	// Dead: take a generation whose key was destroyed, if the history has one (otherwise Gen).
	Dead bool `json:"dead,omitempty"`
	// Damage applies to the envelope itself (for a container: to the part after the 12-byte header).
	Damage *Edit `json:"damage,omitempty"`
}

type field struct{ off, size int }

var structFields = map[string]field{"as.tag": {0, 1}, "as.pubtag": {8, 4}, "as.publen": {12, 4}, "as.msglen": {57, 4}, "as.len": {137, 8}, "as.seal.msglen": {157, 4}}
var blockFields = map[string]field{"ab.tag": {0, 1}, "ab.rest": {4, 8}, "ab.kektype": {12, 1}, "ab.keyid": {13, 2}, "ab.dektype": {15, 1}, "ab.keylen": {16, 2}}

var hostile = []uint64{0, 1, 13, 0x7f, 0xff, 0x100, 0xffff, 0x7fffffff, 0xffffffff, 0x7fffffffffffffff, 0x8000000000000000, 0xffffffffffffffff, 0xfffffffffffffff3}

func fieldNames(kind string) []string {
	if kind == fix.KindStruct {
		return []string{"as.len", "as.msglen", "as.publen", "as.pubtag", "as.seal.msglen", "as.tag"}
	}
	return []string{"ab.dektype", "ab.kektype", "ab.keyid", "ab.keylen", "ab.rest", "ab.tag"}
}

func genEdit(t *rapid.T, label, kind string) *Edit {
	e := &Edit{Op: rapid.SampledFrom([]string{"flip", "flip", "trunc", "field"}).Draw(t, label+".op")}
	switch e.Op {
	case "flip":
		e.Pos = rapid.IntRange(0, 2000).Draw(t, label+".pos")
		e.Bit = rapid.IntRange(0, 7).Draw(t, label+".bit")
	case "trunc":
		e.Pos = rapid.IntRange(0, 300).Draw(t, label+".cut")
	case "field":
		e.Field = rapid.SampledFrom(fieldNames(kind)).Draw(t, label+".field")
		e.Val = rapid.SampledFrom(hostile).Draw(t, label+".val")
	}
	return e
}

// damage edits an envelope (never the container header in front of it).
func damage(kind string, envl []byte, e *Edit) []byte {
	out := append([]byte(nil), envl...)
	switch e.Op {
	case "flip":
		out[e.Pos%len(out)] ^= 1 << uint(e.Bit&7)
	case "trunc":
		cut := 1 + e.Pos%(len(out)-1)
		out = out[:len(out)-cut]
	case "field":
		fs := blockFields
		if kind == fix.KindStruct {
			fs = structFields
		}
		f, ok := fs[e.Field]
		if !ok || f.off+f.size > len(out) {
			out[0] ^= 1
			return out
		}
		var buf [8]byte
		binary.LittleEndian.PutUint64(buf[:], e.Val)
		if bytes.Equal(out[f.off:f.off+f.size], buf[:f.size]) {
			buf[0] ^= 1
		}
		copy(out[f.off:f.off+f.size], buf[:f.size])
	}
	return out
}

func genPoisonPiece(t *rapid.T, label string) Piece {
	kind := rapid.SampledFrom(fix.Kinds).Draw(t, label+".kind")
	form := rapid.SampledFrom([]string{fix.FormContainer, fix.FormContainer, fix.FormContainer, fix.FormRaw}).Draw(t, label+".form")
	p := Piece{Poison: kind + "/" + form, Gen: rapid.IntRange(0, 3).Draw(t, label+".gen")}
	switch rapid.IntRange(0, 9).Draw(t, label+".neg") {
	case 0:
		p.Foreign = true
	case 1, 2:
		p.Damage = genEdit(t, label+".dmg", kind)
	case 3, 4:
		p.Dead = true
	}
	return p
}

func genClientPiece(t *rapid.T, label string) Piece {
	who := rapid.SampledFrom([]string{"alice", "bobby"}).Draw(t, label+".who")
	kind := rapid.SampledFrom(fix.Kinds).Draw(t, label+".kind")
	form := rapid.SampledFrom(fix.Forms).Draw(t, label+".form")
	p := Piece{Env: who + "/" + kind + "/" + form, Plain: gen.NonEmpty(t, label+".plain", 512)}
	if rapid.IntRange(0, 4).Draw(t, label+".dmg") == 0 {
		p.Damage = genEdit(t, label+".dmgedit", kind)
	}
	return p
}

// bogusHeader looks like the beginning of a serialized container that would enclose what follows.
func genBogusHeader(t *rapid.T, label string) Piece {
	ln := rapid.SampledFrom([]uint64{12, 13, 40, 200, 400, 5000, 0xffffffffffffffff}).Draw(t, label+".len")
	id := rapid.SampledFrom([]byte{crypto.AcraStructEnvelopeID, crypto.AcraBlockEnvelopeID, 0x00}).Draw(t, label+".id")
	b := append([]byte("%%%"), make([]byte, 9)...)
	binary.LittleEndian.PutUint64(b[3:], ln)
	b[11] = id
	return Piece{Raw: b}
}

func genFiller(t *rapid.T, label string, maxLen int) Piece {
	switch rapid.IntRange(0, 9).Draw(t, label+".what") {
	case 0, 1:
		return genClientPiece(t, label)
	case 2:
		sym := rapid.SampledFrom([]byte{'"', '%'}).Draw(t, label+".sym")
		return Piece{Raw: bytes.Repeat([]byte{sym}, rapid.IntRange(1, 9).Draw(t, label+".nsym"))}
	case 3:
		return genBogusHeader(t, label)
	}
	return Piece{Raw: gen.Bytes(t, label, maxLen)}
}

// genValue draws a column value: usually one poison piece with optional neighbours, sometimes only
// ordinary content (negatives).
func genValue(t *rapid.T, label string, maxLen int) []Piece {
	var ps []Piece
	pre := rapid.SampledFrom([]int{0, 0, 1, 1, 2}).Draw(t, label+".npre")
	for i := 0; i < pre; i++ {
		ps = append(ps, genFiller(t, fmt.Sprintf("%s.pre%d", label, i), maxLen))
	}
	switch rapid.IntRange(0, 9).Draw(t, label+".core") {
	case 0:
		ps = append(ps, genClientPiece(t, label+".client"))
	case 1:
		ps = append(ps, Piece{Raw: gen.NonEmpty(t, label+".random", maxLen)})
	case 2:
		ps = append(ps, genPoisonPiece(t, label+".p1"), genFiller(t, label+".mid", 64), genPoisonPiece(t, label+".p2"))
	default:
		ps = append(ps, genPoisonPiece(t, label+".p"))
	}
	suf := rapid.SampledFrom([]int{0, 0, 1, 1, 2}).Draw(t, label+".nsuf")
	for i := 0; i < suf; i++ {
		ps = append(ps, genFiller(t, fmt.Sprintf("%s.suf%d", label, i), maxLen))
	}
	return ps
}

// rendered is a materialised column value with what the oracle needs to know about it.
type rendered struct {
	col []byte
	// live: intact poison records of surviving local generations as they appear in the value
	// (container form, or the bare envelope for the raw form)
	liveContainers [][]byte
	liveRaw        [][]byte
	// intact poison records of any kind (live, dead or foreign): nobody can decrypt them
	anyRecords [][]byte
	classes    []string
	firstAt    int      // offset of the first live record (-1 if none)
	liveAt     [][3]int // offset, length and form (1 = container) of every live record
	rotated    bool
}

func splitEnv(s string) []string { return strings.Split(s, "/") }

func foreignRecord(kind string) ([]byte, error) {
	other := fix.TheWorld().KS.(keystore.PoisonKeyStorageAndGenerator)
	if kind == fix.KindStruct {
		return poison.CreatePoisonRecord(other, 40)
	}
	return poison.CreateSymmetricPoisonRecord(other, 40)
}

func (e *env) render(ps []Piece) (r rendered, err error) {
	r.firstAt = -1
	type placed struct {
		at        int
		b         []byte
		container bool
		live      bool
	}
	var marks []placed
	for _, p := range ps {
		switch {
		case p.Poison != "":
			parts := splitEnv(p.Poison)
			kind, form := parts[0], parts[1]
			var rec []byte
			live := false
			g := 0
			if p.Foreign {
				if rec, err = foreignRecord(kind); err != nil {
					return r, err
				}
				r.classes = append(r.classes, "neg:foreign-keystore")
			} else {
				if len(e.recs[kind]) == 0 {
					// the keystore has no poison key of this kind: take the kind it has
					if kind == fix.KindStruct {
						kind = fix.KindBlock
					} else {
						kind = fix.KindStruct
					}
					r.classes = append(r.classes, "keystore:one-kind-of-poison-key")
				}
				g = p.Gen % len(e.recs[kind])
				if p.Dead {
					for i := range e.alive[kind] {
						if !e.alive[kind][(g+i)%len(e.alive[kind])] {
							g = (g + i) % len(e.alive[kind])
							break
						}
					}
				}
				rec = e.recs[kind][g]
				live = e.alive[kind][g]
				if !live {
					r.classes = append(r.classes, "neg:destroyed-generation")
				}
			}
			inner := rec[12:]
			if p.Damage != nil {
				inner = damage(kind, inner, p.Damage)
				live = false
				r.classes = append(r.classes, "neg:damaged-"+p.Damage.Op)
			}
			var b []byte
			if form == fix.FormContainer {
				b = append(append([]byte(nil), rec[:12]...), inner...)
			} else {
				b = inner
			}
			if live {
				genClass := "current"
				if g < len(e.recs[kind])-1 {
					genClass = "rotated"
					r.rotated = true
				}
				r.classes = append(r.classes, "poison:"+kind+"/"+form+"/"+genClass, "poison:"+kind+"/"+genClass+"/"+e.format)
			}
			marks = append(marks, placed{len(r.col), b, form == fix.FormContainer, live})
			if p.Damage == nil {
				r.anyRecords = append(r.anyRecords, b)
			}
			r.col = append(r.col, b...)
		case p.Env != "":
			parts := splitEnv(p.Env)
			v, perr := e.w.Protect([]byte(parts[0]), parts[1], parts[2], p.Plain, -1)
			if perr != nil {
				return r, perr
			}
			if p.Damage != nil {
				off := map[string]int{fix.FormRaw: 0, fix.FormContainer: 12, fix.FormSearchRaw: 33, fix.FormSearchWrapped: 45}[parts[2]]
				v = append(append([]byte(nil), v[:off]...), damage(parts[1], v[off:], p.Damage)...)
				r.classes = append(r.classes, "neg:damaged-client-envelope")
			} else {
				r.classes = append(r.classes, "neg:client-envelope:"+parts[0]+"/"+parts[1]+"/"+parts[2])
			}
			r.col = append(r.col, v...)
		default:
			r.col = append(r.col, p.Raw...)
		}
	}
	for _, m := range marks {
		if !m.live {
			continue
		}
		if r.firstAt < 0 {
			r.firstAt = m.at
		}
		isContainer := 0
		if m.container {
			isContainer = 1
		}
		r.liveAt = append(r.liveAt, [3]int{m.at, len(m.b), isContainer})
		if m.container {
			r.liveContainers = append(r.liveContainers, m.b)
		} else {
			r.liveRaw = append(r.liveRaw, m.b)
		}
	}
	return r, nil
}

// holdsContainer: some offset of b starts a well-formed serialized container (tag, known envelope id,
// declared length within the value) - the column is then processed in container mode and bare (legacy)
// envelopes in it are not looked for.
func holdsContainer(b []byte) bool {
	for i := 0; i+12 < len(b); i++ {
		if b[i] != '%' || b[i+1] != '%' || b[i+2] != '%' {
			continue
		}
		if b[i+11] != crypto.AcraStructEnvelopeID && b[i+11] != crypto.AcraBlockEnvelopeID {
			continue
		}
		ln := binary.LittleEndian.Uint64(b[i+3 : i+11])
		if ln >= 12 && ln <= uint64(len(b)-i) {
			return true
		}
	}
	return false
}

// shapeAt: b starts with bytes shaped like an envelope (serialized container header with a declared length
// inside the value and a known envelope id, or a bare AcraStruct / AcraBlock header); n is the length it claims.
func shapeAt(b []byte) (n int, ok bool) {
	if len(b) > 12 && b[0] == '%' && b[1] == '%' && b[2] == '%' && (b[11] == crypto.AcraStructEnvelopeID || b[11] == crypto.AcraBlockEnvelopeID) {
		if ln := binary.LittleEndian.Uint64(b[3:11]); ln >= 12 && ln <= uint64(len(b)) {
			return int(ln), true
		}
	}
	if len(b) >= 145 && bytes.HasPrefix(b, []byte(`""""""""`)) {
		if dl := binary.LittleEndian.Uint64(b[137:145]); dl <= uint64(len(b)-145) {
			return 145 + int(dl), true
		}
	}
	if len(b) >= 18 && bytes.HasPrefix(b, []byte(`""""`)) {
		if n, _, err := acrablock.ExtractAcraBlockFromData(b); err == nil {
			return n, true
		}
	}
	return 0, false
}

// everyRecordOverlapped: every live record of the value is reached into by envelope-shaped bytes that start
// in front of it. In a masked column the masking processor replaces such an undecryptable "envelope" by the
// pattern and the scan goes on behind its claimed length, i.e. inside the record (known finding).
func everyRecordOverlapped(r rendered) bool {
	// the records the expectation rests on: the container-form ones, or (value without any container) the bare ones
	var recs [][3]int
	for _, rec := range r.liveAt {
		if rec[2] == 1 {
			recs = append(recs, rec)
		}
	}
	if len(recs) == 0 {
		recs = r.liveAt
	}
	if len(recs) == 0 {
		return false
	}
	for _, rec := range recs {
		hit := false
		for i := 0; i < rec[0] && !hit; i++ {
			if n, ok := shapeAt(r.col[i:]); ok && i+n > rec[0] {
				hit = true
			}
		}
		if !hit {
			return false
		}
	}
	return true
}

// Expectation for a value handed to a scanning entry point.
const (
	expNone = iota // no poison record in it: the callbacks must stay silent
	expFire        // holds an intact poison record of a surviving generation: the callbacks must run
	expOpen        // a bare (legacy-format) record next to a new-format container: not decided by the property
)

func expectation(r rendered, data []byte) int {
	for _, c := range r.liveContainers {
		if bytes.Contains(data, c) {
			return expFire
		}
	}
	for _, c := range r.liveRaw {
		if bytes.Contains(data, c) {
			if holdsContainer(data) {
				return expOpen
			}
			return expFire
		}
	}
	return expNone
}

// ---------------------------------------------------------------------------------------------
// callbacks

var errBoom = errors.New("verif: poison callback failed on purpose")

type failingCallback struct{ n int }

func (c *failingCallback) Call() error { c.n++; return errBoom }

func failing() (base.PoisonRecordCallbackStorage, *failingCallback) {
	st := poison.NewCallbackStorage()
	cb := &failingCallback{}
	st.AddCallback(cb)
	return st, cb
}

// addKnown records a violation of a class that is a known finding; with VERIF_ASSUME_KNOWN=<sig>,<sig> (a
// development aid: search behind a finding before it is listed in known_findings.json) the class is only counted.
func addKnown(vs *hx.Vs, sig, format string, args ...any) {
	for _, s := range strings.Split(os.Getenv("VERIF_ASSUME_KNOWN"), ",") {
		if s == sig {
			R.Class("assumed-known", sig)
			return
		}
	}
	vs.Add(sig, format, args...)
}

// maskedColumnSetting is the setting of a masked column (what the window and the pattern are does not matter
// for poison detection).
func maskedColumnSetting() config.ColumnEncryptionSetting {
	env := config.CryptoEnvelopeTypeAcraBlock
	reencrypt := true
	s := &config.BasicColumnEncryptionSetting{Name: "c", CryptoEnvelope: &env, ReEncryptToAcraBlock: &reencrypt, MaskingPattern: "xxxx", PartialPlaintextLenBytes: 2, PlaintextSide: "left"}
	if err := s.Init(false); err != nil {
		panic(err)
	}
	return s
}

// maskedChain replicates proxyFactory.New for a deployment with masked columns: the decrypt handler works
// over the masking processor.
func maskedChain(ks keystore.ServerKeyStore, callbacks base.PoisonRecordCallbackStorage) *crypto.OldContainerDetectorWrapper {
	det := crypto.NewEnvelopeDetector()
	wrapper := crypto.NewOldContainerDetectorWrapper(det)
	reg := crypto.NewRegistryHandler(ks)
	if callbacks != nil && callbacks.HasCallbacks() {
		pd := crypto.NewPoisonRecordsRecognizer(ks, reg)
		pd.SetPoisonRecordCallbacks(callbacks)
		det.AddCallback(pd)
	}
	proc, err := masking.NewProcessor(reg)
	if err != nil {
		panic(err)
	}
	det.AddCallback(crypto.NewDecryptHandler(ks, proc))
	return wrapper
}

// ---------------------------------------------------------------------------------------------
// TestPoisonColumn

// ColCase is a column value run through the replicated column chains of both proxies.
type ColCase struct {
	Hist  Hist    `json:"hist"`
	Value []Piece `json:"value"`
}

func sameResult(a []byte, ea error, b []byte, eb error) bool {
	return bytes.Equal(a, b) && (ea == nil) == (eb == nil)
}

func CheckColumn(c ColCase) (vs hx.Vs, nontrivial bool, classes []string) {
	e, err := build(c.Hist)
	if err != nil {
		if e != nil {
			e.close()
		}
		vs.Add("harness:build", "%v", err)
		return
	}
	defer e.close()
	classes = append(classes, "format:"+c.Hist.Format)
	if e.diverged != "" {
		R.Class("TestPoisonColumn", "excluded:keystore-after-destroy:"+e.diverged+":"+c.Hist.Format)
		return vs, false, append(classes, "excluded:keystore-after-destroy")
	}
	r, err := e.render(c.Value)
	if err != nil {
		vs.Add("harness:render", "%v", err)
		return
	}
	classes = append(classes, r.classes...)
	exp := expectation(r, r.col)
	classes = append(classes, []string{"expect:silent", "expect:alarm", "expect:open(legacy-record-next-to-container)"}[exp])
	if exp == expFire {
		if r.firstAt > 0 {
			classes = append(classes, "placement:offset>0")
		} else {
			classes = append(classes, "placement:alone-or-first")
		}
		nontrivial = r.firstAt > 0 || r.rotated
	} else if exp == expNone {
		nontrivial = holdsContainer(r.col) || len(r.anyRecords) > 0
	}
	if len(c.Hist.Destroy) > 0 {
		classes = append(classes, "history:with-destruction")
	}
	type chain struct {
		name string
		run  func(cb base.PoisonRecordCallbackStorage, id, in []byte) ([]byte, error)
	}
	chains := []chain{
		{"column", func(cb base.PoisonRecordCallbackStorage, id, in []byte) ([]byte, error) {
			return fix.NewChain(e.ks, cb).OnColumn(id, in)
		}},
		{"search-column", func(cb base.PoisonRecordCallbackStorage, id, in []byte) ([]byte, error) {
			return fix.NewSearchChain(e.ks, cb).OnColumn(id, in)
		}},
	}
	maskedSetting := maskedColumnSetting()
	chains = append(chains, chain{"masked-column", func(cb base.PoisonRecordCallbackStorage, id, in []byte) ([]byte, error) {
		_, out, err := maskedChain(e.ks, cb).OnColumn(encryptor.NewContextWithEncryptionSetting(fix.Ctx(id), maskedSetting), in)
		return out, err
	}})
	overlapped := everyRecordOverlapped(r)
	if overlapped {
		classes = append(classes, "record-overlapped-by-envelope-shaped-bytes")
	}
	hashCut := cutByHashLikePrefix(r)
	if hashCut {
		classes = append(classes, "record-cut-by-hash-like-prefix")
	}
	for _, ch := range chains {
		for _, reader := range [][]byte{alice, carol} {
			name := ch.name + ":" + map[string]string{"alice": "reader-with-keys", "carol": "reader-without-keys"}[string(reader)]
			in := func() []byte { return append([]byte(nil), r.col...) }
			var out0, out1, out2, out3 []byte
			var err0, err1, err2, err3 error
			st, cb := fix.Callbacks()
			fst, fcb := failing()
			if hx.Guard(&vs, name, func() {
				out0, err0 = ch.run(nil, reader, in())
				out3, err3 = ch.run(poison.NewCallbackStorage(), reader, in())
				out1, err1 = ch.run(st, reader, in())
				out2, err2 = ch.run(fst, reader, in())
			}) {
				continue
			}
			_ = out2
			if err0 != nil {
				vs.Add("column-error:"+name, "chain without callbacks failed: %v", err0)
				continue
			}
			if !sameResult(out0, err0, out3, err3) {
				vs.Add("empty-callback-storage-changed-data:"+name, "with an empty callback storage the chain delivered %d bytes (err %v), without any %d bytes", len(out3), err3, len(out0))
			}
			// nobody holds the poison keys as client keys: without callbacks the records pass through untouched
			for _, rec := range r.anyRecords {
				if ch.name == "masked-column" {
					break // a masked column shows the pattern instead of anything that cannot be decrypted
				}
				if bytes.Contains(r.col, rec) && !bytes.Contains(out0, rec) {
					vs.Add("record-touched-without-callbacks:"+name, "a poison record (%d bytes) is not delivered as stored when no callbacks are configured", len(rec))
					break
				}
			}
			if !sameResult(out0, err0, out1, err1) {
				vs.Add("callbacks-changed-data:"+name, "with a (succeeding) callback the chain delivered %d bytes (err %v), without callbacks %d bytes", len(out1), err1, len(out0))
			}
			switch exp {
			case expFire:
				if ch.name == "masked-column" && overlapped && (cb.N < 1 || fcb.n < 1) {
					addKnown(&vs, "missed:masked-column:record-overlapped-by-envelope-shaped-bytes", "masked column, value of %d bytes: envelope-shaped bytes in front of the poison record (offset %d) claim a length that reaches into it; the masking processor replaces them by the pattern and the record is never looked at: callback ran %d times", len(r.col), r.firstAt, cb.N)
					continue
				}
				if ch.name == "search-column" && hashCut && (cb.N < 1 || fcb.n < 1) {
					addKnown(&vs, "missed:search-column:record-cut-by-hash-like-prefix", "searchable deployment, value of %d bytes: it starts with 0x7f, the 33 bytes of a search hash end inside the poison record (offset %d) and envelope-shaped bytes follow; the HMAC processor takes the 33 bytes off before the detectors see the value, the record is cut in two and never recognised, the hash does not verify and the value is delivered as stored: callback ran %d times", len(r.col), r.firstAt, cb.N)
					continue
				}
				if cb.N < 1 {
					vs.Add("missed:"+name, "value of %d bytes holds an intact poison record of a surviving generation (first at offset %d): callback ran %d times", len(r.col), r.firstAt, cb.N)
				}
				if fcb.n < 1 || !errors.Is(err2, errBoom) {
					vs.Add("callback-error-lost:"+name, "failing callback ran %d times, the chain returned error %v and %d bytes", fcb.n, err2, len(out2))
				}
			case expNone:
				if cb.N != 0 || fcb.n != 0 {
					vs.Add("false-alarm:"+name, "value of %d bytes holds no intact poison record of this keystore: callback ran %d times", len(r.col), cb.N+fcb.n)
				}
				if err2 != nil || !bytes.Equal(out2, out0) {
					vs.Add("callbacks-changed-data:"+name, "silent case, failing callback configured: delivered %d bytes, err %v; without callbacks %d bytes", len(out2), err2, len(out0))
				}
			}
		}
	}
	return
}

func TestPoisonColumn(t *testing.T) {
	R.Rule("TestPoisonColumn", "fresh keystore (v1 directory / v2 in-memory) with clients alice, bobby (keys) and carol (none) and a poison-key history (1-4 generations of the poison key pair and of the poison symmetric key, one poison record of either kind made right after each generation, optionally rotated keys destroyed by listing index); column value = 0-2 fillers (G-bytes, tag runs, bogus container headers, whole or damaged envelopes of alice/bobby in all kinds and forms) || poison record (kind x container/bare x generation; or foreign-keystore / bit-flipped / truncated / field-edited / destroyed-generation record; or only ordinary content; or two records) || 0-2 fillers, run through the replicated column chain, the searchable-column chain and the chain of a masked column (decrypt handler over the masking processor) under a reader with keys and one without, each with no callbacks, an empty storage, a counting callback and a failing callback. Oracle: value holds an intact record of a surviving generation => callback count >= 1 and the failing callback's error is returned instead of data; otherwise count == 0; data equal to the run without callbacks; records untouched without callbacks. Non-trivial = record at offset > 0 or of a rotated generation, or a silent case holding a well-formed envelope")
	hx.Checks(280, 9000)
	rapid.Check(t, func(rt *rapid.T) {
		c := ColCase{Hist: genHist(rt), Value: genValue(rt, "v", 4096)}
		vs, nt, cl := CheckColumn(c)
		R.Seen("TestPoisonColumn", c, nt, cl...)
		R.Report(rt, "TestPoisonColumn", c, vs)
	})
}

// ---------------------------------------------------------------------------------------------
// TestPoisonTranslator

type svcT = *common.TranslatorService

// TrCase is a value handed to the four decrypt operations of the translator under a client id.
type TrCase struct {
	Hist   Hist    `json:"hist"`
	Value  []Piece `json:"value"`
	Client string  `json:"client"`
}

func CheckTranslator(c TrCase) (vs hx.Vs, nontrivial bool, classes []string) {
	e, err := build(c.Hist)
	if err != nil {
		if e != nil {
			e.close()
		}
		vs.Add("harness:build", "%v", err)
		return
	}
	defer e.close()
	classes = append(classes, "format:"+c.Hist.Format, "client:"+c.Client)
	if e.diverged != "" {
		R.Class("TestPoisonTranslator", "excluded:keystore-after-destroy:"+e.diverged+":"+c.Hist.Format)
		return vs, false, append(classes, "excluded:keystore-after-destroy")
	}
	r, err := e.render(c.Value)
	if err != nil {
		vs.Add("harness:render", "%v", err)
		return
	}
	if len(r.col) == 0 {
		return vs, false, append(classes, "empty")
	}
	classes = append(classes, r.classes...)
	id := []byte(c.Client)
	type op struct {
		name string
		// scanned: the part of the input the operation treats as protected data
		scanned func(in []byte) []byte
		run     func(svc svcT, in []byte) ([]byte, error)
	}
	afterHash := func(in []byte) []byte {
		// the searchable operations take "hash || data": 0x7f + 32 bytes are the hash when present
		if len(in) >= 33 && in[0] == 0x7f {
			return in[33:]
		}
		return in
	}
	whole := func(in []byte) []byte { return in }
	ops := []op{
		{"Decrypt", whole, func(s svcT, in []byte) ([]byte, error) { return s.Decrypt(fix.Ctx(id), in, id, nil) }},
		{"DecryptSym", whole, func(s svcT, in []byte) ([]byte, error) { return s.DecryptSym(fix.Ctx(id), in, id, nil) }},
		{"DecryptSearchable", afterHash, func(s svcT, in []byte) ([]byte, error) { return s.DecryptSearchable(fix.Ctx(id), in, nil, id, nil) }},
		{"DecryptSymSearchable", afterHash, func(s svcT, in []byte) ([]byte, error) {
			return s.DecryptSymSearchable(fix.Ctx(id), in, nil, id, nil)
		}},
	}
	if len(r.col) > 33 {
		ops = append(ops,
			op{"DecryptSearchable/split", afterHash, func(s svcT, in []byte) ([]byte, error) {
				return s.DecryptSearchable(fix.Ctx(id), in[33:], in[:33:33], id, nil)
			}},
			op{"DecryptSymSearchable/split", afterHash, func(s svcT, in []byte) ([]byte, error) {
				return s.DecryptSymSearchable(fix.Ctx(id), in[33:], in[:33:33], id, nil)
			}})
	}
	for _, o := range ops {
		in := func() []byte { return append([]byte(nil), r.col...) }
		exp := expectation(r, o.scanned(r.col))
		var out0, out1, out2 []byte
		var err0, err1, err2 error
		st, cb := fix.Callbacks()
		fst, fcb := failing()
		if hx.Guard(&vs, o.name, func() {
			out0, err0 = o.run(fix.Translator(e.ks, nil, nil), in())
			out1, err1 = o.run(fix.Translator(e.ks, st, nil), in())
			out2, err2 = o.run(fix.Translator(e.ks, fst, nil), in())
		}) {
			continue
		}
		cl := "op:" + o.name + ":" + []string{"silent", "alarm", "open"}[exp]
		if exp == expFire && r.firstAt > 0 {
			cl += ":offset>0"
		}
		classes = append(classes, cl)
		// a searchable operation that decrypted the leading envelope and then rejected the hash behaves like a
		// successful one as far as the rest of the input is concerned
		leadOK := err0 == nil
		if !leadOK && strings.Contains(o.name, "Searchable") {
			hx.Guard(&vs, o.name, func() {
				base0 := fix.Translator(e.ks, nil, nil)
				sc := append([]byte(nil), o.scanned(r.col)...)
				if strings.Contains(o.name, "Sym") {
					_, lerr := base0.DecryptSym(fix.Ctx(id), sc, id, nil)
					leadOK = lerr == nil
				} else {
					_, lerr := base0.Decrypt(fix.Ctx(id), sc, id, nil)
					leadOK = lerr == nil
				}
			})
		}
		if leadOK {
			// the operation revealed something to this client (an ordinary envelope in front): the rest of
			// the input is not delivered, nothing to demand
			classes = append(classes, "op-succeeded")
			if cb.N != 0 && exp == expNone {
				vs.Add("false-alarm:"+o.name, "successful decryption, no poison record: callback ran %d times", cb.N)
			}
			if !bytes.Equal(out0, out1) || (err1 == nil) != (err0 == nil) {
				vs.Add("callbacks-changed-data:"+o.name, "with callbacks %d bytes/err %v, without %d bytes/err %v", len(out1), err1, len(out0), err0)
			}
			continue
		}
		if exp == expFire {
			nontrivial = nontrivial || r.firstAt > 0 || r.rotated
		} else {
			nontrivial = nontrivial || holdsContainer(r.col)
		}
		if (err1 == nil) != (err0 == nil) || !bytes.Equal(out0, out1) {
			vs.Add("callbacks-changed-data:"+o.name, "with a (succeeding) callback %d bytes/err %v, without callbacks %d bytes/err %v", len(out1), err1, len(out0), err0)
		}
		switch exp {
		case expFire:
			if cb.N < 1 || fcb.n < 1 {
				shape := "container"
				if len(r.liveContainers) == 0 {
					shape = "bare-envelope"
				}
				at := "alone"
				if r.firstAt > 0 || len(o.scanned(r.col)) != len(r.col) {
					at = "embedded"
				}
				vs.Add("missed:"+o.name+":"+shape+":"+at, "input of %d bytes holds an intact poison record of a surviving generation (offset %d) and %s failed (%v): callback ran %d times", len(r.col), r.firstAt, o.name, err0, cb.N)
			}
			if err2 == nil {
				vs.Add("callback-error-lost:"+o.name, "failing callback ran %d times, the operation returned %d bytes without error", fcb.n, len(out2))
			}
		case expNone:
			if cb.N != 0 || fcb.n != 0 {
				vs.Add("false-alarm:"+o.name, "input of %d bytes holds no intact poison record of this keystore: callback ran %d times", len(r.col), cb.N+fcb.n)
			}
		}
	}
	return
}

func TestPoisonTranslator(t *testing.T) {
	R.Rule("TestPoisonTranslator", "same keystores, histories and values as TestPoisonColumn, handed to the translator's Decrypt, DecryptSym, DecryptSearchable and DecryptSymSearchable (hash inline or as separate argument) under client alice, bobby or carol; services built with no callbacks, a counting callback and a failing callback. Oracle: when the operation fails and the part of the input it treats as protected data holds an intact poison record of a surviving generation the callback count is >= 1; otherwise 0; results equal to the service without callbacks. Non-trivial = as TestPoisonColumn")
	hx.Checks(220, 6000)
	rapid.Check(t, func(rt *rapid.T) {
		c := TrCase{Hist: genHist(rt), Value: genValue(rt, "v", 2048), Client: rapid.SampledFrom([]string{"alice", "alice", "bobby", "carol"}).Draw(rt, "client")}
		// the searchable operations need a hash-like prefix to get to the data at all
		if rapid.IntRange(0, 2).Draw(rt, "hashprefix") == 0 {
			h := rapid.SliceOfN(rapid.Byte(), 33, 33).Draw(rt, "hash")
			h[0] = 0x7f
			c.Value = append([]Piece{{Raw: h}}, c.Value...)
		}
		vs, nt, cl := CheckTranslator(c)
		R.Seen("TestPoisonTranslator", c, nt, cl...)
		R.Report(rt, "TestPoisonTranslator", c, vs)
	})
}

func TestReplay(t *testing.T) {
	R.Replay(t, map[string]hx.ReplayHandler{
		"TestPoisonColumn": func(raw json.RawMessage) hx.Vs {
			var c ColCase
			if err := json.Unmarshal(raw, &c); err != nil {
				return hx.Vs{{Sig: "harness:decode", Msg: err.Error()}}
			}
			vs, _, _ := CheckColumn(c)
			return vs
		},
		"TestPoisonRealCallbacks": func(raw json.RawMessage) hx.Vs {
			var c ColCase
			if err := json.Unmarshal(raw, &c); err != nil {
				return hx.Vs{{Sig: "harness:decode", Msg: err.Error()}}
			}
			vs, _, _ := CheckRealCallbacks(c)
			return vs
		},
		"TestPoisonTranslator": func(raw json.RawMessage) hx.Vs {
			var c TrCase
			if err := json.Unmarshal(raw, &c); err != nil {
				return hx.Vs{{Sig: "harness:decode", Msg: err.Error()}}
			}
			vs, _, _ := CheckTranslator(c)
			return vs
		},
		"TestPoisonSessions": func(raw json.RawMessage) hx.Vs {
			var c SessCase
			if err := json.Unmarshal(raw, &c); err != nil {
				return hx.Vs{{Sig: "harness:decode", Msg: err.Error()}}
			}
			vs, _, _ := CheckSession(c)
			return vs
		},
		"TestPoisonSessionsMySQL": func(raw json.RawMessage) hx.Vs {
			var c MySessCase
			if err := json.Unmarshal(raw, &c); err != nil {
				return hx.Vs{{Sig: "harness:decode", Msg: err.Error()}}
			}
			vs, _, _ := CheckMySession(c)
			return vs
		},
	})
}
