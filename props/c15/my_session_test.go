package c15

import (
	"bytes"
	"encoding/binary"
	"encoding/hex"
	"errors"
	"fmt"
	"os"
	"strconv"
	"strings"
	"sync"
	"testing"

	"pgregory.net/rapid"

	"github.com/cossacklabs/acra/crypto"
	"github.com/cossacklabs/acra/decryptor/base"
	"github.com/cossacklabs/acra/poison"

	"verif/internal/hx"
	"verif/internal/myprog"
	"verif/internal/mysess"
)

// MySessCase is the MySQL twin of SessCase: rows planted directly in the typed fake server behind acra's real
// MySQL proxy (internal/mysess) and read, table by table, through a session of Reader with intrusion callbacks
// configured and through a baseline session without callbacks.
type MySessCase struct {
	Hist   Hist               `json:"hist"`
	Tables []myprog.TableSpec `json:"tables"`
	// Rows[table][row][column]: cells of the columns stored as BLOB (entries of other columns are ignored)
	Rows   [][][]Cell `json:"rows"`
	Reader string     `json:"reader"` // alice | carol
	Mode   string     `json:"mode"`   // count: callback succeeds | error: callback fails
	// Binary: COM_STMT_PREPARE + COM_STMT_EXECUTE (binary protocol rows) instead of COM_QUERY (text protocol rows)
	Binary bool `json:"binary,omitempty"`
	Star   bool `json:"star,omitempty"`
	// DeprecateEOF: the client asks for CLIENT_DEPRECATE_EOF (result sets end with an OK packet, no EOF after the
	// column definitions); acra's proxy parses the result set by this flag
	DeprecateEOF bool `json:"deprecate_eof,omitempty"`
}

var mySessKinds = []string{myprog.KPlainBlob, myprog.KPlainInt, myprog.KPlainText, myprog.KEnc, myprog.KEnc, myprog.KSearch, myprog.KMask, myprog.KMask,
	myprog.KToken, myprog.KToken, myprog.KTyped}

func genMySessCase(t *rapid.T) MySessCase {
	c := MySessCase{
		Hist:         genHist(t),
		Tables:       myprog.GenTables(t, mySessKinds, "alice", "bobby"),
		Reader:       rapid.SampledFrom([]string{"alice", "carol"}).Draw(t, "reader"),
		Mode:         rapid.SampledFrom([]string{"count", "count", "error"}).Draw(t, "mode"),
		Binary:       rapid.Bool().Draw(t, "binary"),
		Star:         rapid.Bool().Draw(t, "star"),
		DeprecateEOF: rapid.Bool().Draw(t, "deprecate_eof"),
	}
	// of the tokenized columns only those with token_type bytes are BLOBs (can hold a record): make them frequent
	for ti := range c.Tables {
		for ci := range c.Tables[ti].Cols {
			if col := &c.Tables[ti].Cols[ci]; col.Kind == myprog.KToken && col.TokenType != "bytes" && rapid.Bool().Draw(t, fmt.Sprintf("t%dc%d.bytes-token", ti, ci)) {
				col.TokenType = "bytes"
			}
		}
	}
	silent := rapid.IntRange(0, 4).Draw(t, "silent") == 0 // a session without any poison record
	for ti, tb := range c.Tables {
		var rows [][]Cell
		n := rapid.IntRange(0, 3).Draw(t, fmt.Sprintf("t%d.nrows", ti))
		if ti == 0 && n == 0 {
			n = 1
		}
		for ri := 0; ri < n; ri++ {
			row := make([]Cell, len(tb.Cols))
			for ci, col := range tb.Cols {
				if col.DBType() != mysess.Blob {
					continue
				}
				label := fmt.Sprintf("t%dr%dc%d", ti, ri, ci)
				switch rapid.IntRange(0, 5).Draw(t, label+".what") {
				case 0:
					row[ci] = Cell{Null: true}
				case 1, 2:
					// ordinary content only
					row[ci] = Cell{Value: []Piece{genFiller(t, label+".f", 512)}}
				default:
					if silent {
						row[ci] = Cell{Value: []Piece{genFiller(t, label+".f", 512), genFiller(t, label+".g", 64)}}
					} else {
						row[ci] = Cell{Value: genValue(t, label, 512)}
					}
				}
			}
			rows = append(rows, row)
		}
		c.Rows = append(c.Rows, rows)
	}
	return c
}

// myOrderCallback notes how many bytes the client had received when it ran, and fails on demand.
type myOrderCallback struct {
	mu    sync.Mutex
	sess  *mysess.Session
	snaps []int
	fail  bool
}

func (c *myOrderCallback) Call() error {
	c.mu.Lock()
	defer c.mu.Unlock()
	n := -1
	if c.sess != nil {
		_, n, _, _ = c.sess.StreamLens()
	}
	c.snaps = append(c.snaps, n)
	if c.fail {
		return errBoom
	}
	return nil
}

func (c *myOrderCallback) calls() []int {
	c.mu.Lock()
	defer c.mu.Unlock()
	return append([]int(nil), c.snaps...)
}

// myReply is what the client received for one SELECT, framed by the packet headers only (a row whose values the
// column definitions do not describe does not desynchronise the reader; typed columns are C19's business).
type myReply struct {
	errPkt   *mysess.Err
	okPkt    bool
	payloads [][]byte // every packet of the reply
	rows     [][]byte // payloads of the row packets
	rowOffs  []int    // offset of each row packet in the client's receive stream
	nfields  int
	ended    bool
}

// readMyReply reads one reply; from is the length of the client's receive stream before the command was sent.
func readMyReply(s *mysess.Session, from int) (*myReply, error) {
	rep := &myReply{}
	off := from
	next := func() (mysess.Packet, int, error) {
		p, err := s.ReadPacket()
		if err != nil {
			return p, 0, err
		}
		at := off
		off += 4*p.Frames + len(p.Payload)
		rep.payloads = append(rep.payloads, p.Payload)
		return p, at, nil
	}
	p, _, err := next()
	if err != nil {
		return rep, err
	}
	b := p.Payload
	if len(b) == 0 {
		return rep, fmt.Errorf("%w: empty first packet of the reply", mysess.ErrMalformed)
	}
	switch b[0] {
	case 0xff:
		e, err := mysess.DecodeErr(b, s.Caps)
		if err != nil {
			return rep, err
		}
		rep.errPkt, rep.ended = &e, true
		return rep, nil
	case 0x00:
		rep.okPkt, rep.ended = true, true
		return rep, nil
	}
	n, _, used, _, err := mysess.ReadLenEncInt(b)
	if err != nil || used != len(b) {
		return rep, fmt.Errorf("%w: column count packet % x", mysess.ErrMalformed, b)
	}
	rep.nfields = int(n)
	for i := 0; i < int(n); i++ {
		if _, _, err := next(); err != nil {
			return rep, err
		}
	}
	if s.Caps&mysess.CapDeprecateEOF == 0 {
		p, _, err := next()
		if err != nil {
			return rep, err
		}
		if _, err := mysess.DecodeEOF(p.Payload, s.Caps); err != nil {
			return rep, fmt.Errorf("after the column definitions: %w", err)
		}
	}
	for {
		p, at, err := next()
		if err != nil {
			return rep, err
		}
		if mysess.IsResultSetEnd(p.Payload, s.Caps) {
			rep.ended = true
			if p.Payload[0] == 0xff {
				e, err := mysess.DecodeErr(p.Payload, s.Caps)
				if err != nil {
					return rep, err
				}
				rep.errPkt = &e
			}
			return rep, nil
		}
		rep.rows = append(rep.rows, p.Payload)
		rep.rowOffs = append(rep.rowOffs, at)
	}
}

// myRowID decodes the first column (the INT key) of a row packet.
func myRowID(row []byte, nfields int, binaryProto bool) (int, bool) {
	if binaryProto {
		pos := 1 + (nfields+7+2)/8
		if len(row) < pos+4 || row[0] != 0 || row[1]&(1<<2) != 0 {
			return 0, false
		}
		return int(int32(binary.LittleEndian.Uint32(row[pos : pos+4]))), true
	}
	s, null, _, _, err := mysess.ReadLenEncStr(row)
	if err != nil || null {
		return 0, false
	}
	n, err := strconv.Atoi(string(s))
	return n, err == nil
}

func sameMyReply(a, b *myReply) string {
	if (a.errPkt == nil) != (b.errPkt == nil) {
		return fmt.Sprintf("ERR packet %v vs %v", a.errPkt, b.errPkt)
	}
	if a.errPkt != nil && (a.errPkt.Code != b.errPkt.Code || a.errPkt.Message != b.errPkt.Message) {
		return fmt.Sprintf("ERR packet %d %q vs %d %q", a.errPkt.Code, a.errPkt.Message, b.errPkt.Code, b.errPkt.Message)
	}
	if len(a.rows) != len(b.rows) {
		return fmt.Sprintf("row count %d vs %d", len(a.rows), len(b.rows))
	}
	if len(a.payloads) != len(b.payloads) {
		return fmt.Sprintf("packet count %d vs %d", len(a.payloads), len(b.payloads))
	}
	for i := range a.payloads {
		if !bytes.Equal(a.payloads[i], b.payloads[i]) {
			return fmt.Sprintf("packet %d of the reply: %.60q vs %.60q", i, a.payloads[i], b.payloads[i])
		}
	}
	return ""
}

// cutByHashLikePrefix recognises the class of the known finding missed:search-column:record-cut-by-hash-like-prefix: the
// value starts with the byte that marks a search hash (0x7f), the 33 bytes a hash takes end inside every live
// record the expectation rests on, and envelope-shaped bytes follow. In a deployment with a searchable column the
// HMAC processor (subscribed for every column, in front of the envelope detector) takes the first 33 bytes off
// such a value because "an envelope follows somewhere": the record is cut in two before the poison detector sees
// it, the hash then does not verify and the value is delivered as stored - the intact record included.
func cutByHashLikePrefix(r rendered) bool {
	const hashLen = 33
	if len(r.col) <= hashLen || r.col[0] != 0x7f {
		return false
	}
	var recs [][3]int
	for _, rec := range r.liveAt {
		if rec[2] == 1 {
			recs = append(recs, rec)
		}
	}
	if len(recs) == 0 {
		recs = r.liveAt
	}
	if len(recs) == 0 {
		return false
	}
	for _, rec := range recs {
		if !(rec[0] < hashLen && rec[0]+rec[1] > hashLen) {
			return false
		}
	}
	// acra's own rule for "looks like a searchable value": an envelope somewhere behind the hash
	return crypto.NewEnvelopeMatcher().Match(append([]byte(nil), r.col[hashLen:]...))
}

// searchDeployment: the configuration has a searchable column (then the HMAC processor is part of every column's chain).
func mySearchDeployment(ts []myprog.TableSpec) bool {
	for _, tb := range ts {
		for _, col := range tb.Cols {
			if tb.Configured && col.Kind == myprog.KSearch {
				return true
			}
		}
	}
	return false
}

// CheckMySession runs the case. (VERIF_NO_EXCLUDE=1, a development aid, switches the exclusion of the two known classes
// off, so that a saved case of such a class shows what the proxy does with it.)
func CheckMySession(c MySessCase) (vs hx.Vs, nontrivial bool, classes []string) {
	e, err := build(c.Hist)
	if err != nil {
		if e != nil {
			e.close()
		}
		vs.Add("harness:build", "%v", err)
		return
	}
	defer e.close()
	proto := "text"
	if c.Binary {
		proto = "binary"
	}
	classes = append(classes, "format:"+c.Hist.Format, "reader:"+c.Reader, "mode:"+c.Mode, "proto:"+proto, "mode*proto:"+c.Mode+"/"+proto)
	if e.diverged != "" {
		R.Class("TestPoisonSessionsMySQL", "excluded:keystore-after-destroy:"+e.diverged+":"+c.Hist.Format)
		return vs, false, append(classes, "excluded:keystore-after-destroy")
	}
	if c.DeprecateEOF {
		classes = append(classes, "caps:deprecate-eof")
	} else {
		classes = append(classes, "caps:eof-packets")
	}
	for ti := range c.Tables {
		if len(c.Tables[ti].Cols) == 0 {
			vs.Add("harness:case", "table %d has no columns", ti)
			return
		}
	}
	defs := myprog.Defs(c.Tables)
	yaml := myprog.SchemaYAML(c.Tables)
	store := mysess.NewStore(defs)
	searchable := mySearchDeployment(c.Tables)
	// plant the rows
	planted := make([][][]plantedCell, len(c.Tables))
	totalFire, totalOpen := 0, 0
	for ti, tb := range c.Tables {
		if ti >= len(c.Rows) {
			break
		}
		var rows [][]mysess.Value
		for ri, crow := range c.Rows[ti] {
			row := make([]mysess.Value, len(tb.Cols))
			prow := make([]plantedCell, len(tb.Cols))
			for ci, col := range tb.Cols {
				switch {
				case ci == 0:
					row[ci] = mysess.Value{B: []byte(strconv.Itoa(ri + 1))}
				case col.DBType() == mysess.Blob && ci < len(crow) && !crow[ci].Null && len(crow[ci].Value) > 0:
					r, rerr := e.render(crow[ci].Value)
					if rerr != nil {
						vs.Add("harness:render", "%v", rerr)
						return
					}
					row[ci] = mysess.Value{B: r.col}
					exp := expectation(r, r.col)
					if exp == expFire && col.Kind == myprog.KMask && tb.Configured && everyRecordOverlapped(r) && os.Getenv("VERIF_NO_EXCLUDE") == "" {
						// known finding missed:masked-column:record-overlapped-by-envelope-shaped-bytes (shown by TestPoisonColumn)
						exp = expOpen
						classes = append(classes, "excluded:masked-column-record-overlapped")
					}
					if exp == expFire && searchable && cutByHashLikePrefix(r) {
						// the class of the fixed finding missed:search-column:record-cut-by-hash-like-prefix: asserted like any other
						classes = append(classes, "record-cut-by-hash-like-prefix")
					}
					prow[ci] = plantedCell{r, exp}
					kind := col.Kind
					if col.Kind == myprog.KTyped || ((col.Kind == myprog.KSearch || col.Kind == myprog.KMask) && col.DataType != "") {
						kind += "/" + col.DataType
					}
					where := "configured:" + kind
					if !tb.Configured || !col.Protected() {
						where = "unconfigured:" + col.Kind
					}
					switch exp {
					case expFire:
						totalFire++
						classes = append(classes, "alarm-cell:"+where, "alarm-cell*proto:"+col.Kind+"/"+proto)
						classes = append(classes, r.classes...)
						if r.firstAt > 0 {
							classes = append(classes, "placement:offset>0")
						} else {
							classes = append(classes, "placement:alone-or-first")
						}
						if r.firstAt > 0 || r.rotated {
							nontrivial = true
						}
					case expOpen:
						totalOpen++
					default:
						classes = append(classes, "silent-cell:"+where)
						for _, cl := range r.classes {
							if strings.HasPrefix(cl, "neg:") {
								classes = append(classes, cl)
							}
						}
						if holdsContainer(r.col) {
							nontrivial = true
						}
					}
				case col.DBType().IsInt():
					row[ci] = mysess.Value{B: []byte("7")}
				case col.DBType() == mysess.Varchar || col.DBType() == mysess.Text:
					row[ci] = mysess.Value{B: []byte("note")}
				default:
					row[ci] = mysess.Value{Null: true}
				}
			}
			rows = append(rows, row)
			planted[ti] = append(planted[ti], prow)
		}
		store.SetRows(tb.Name, rows)
	}
	if totalFire == 0 && totalOpen == 0 {
		classes = append(classes, "session:silent")
	} else if totalFire > 0 {
		classes = append(classes, "session:alarm")
	}

	cb := &myOrderCallback{fail: c.Mode == "error"}
	cbs := poison.NewCallbackStorage()
	cbs.AddCallback(cb)
	rid := []byte(c.Reader)
	caps := uint32(mysess.DefaultCaps)
	if c.DeprecateEOF {
		caps |= mysess.CapDeprecateEOF
	}
	start := func(callbacks base.PoisonRecordCallbackStorage) (*mysess.Session, error) {
		return mysess.Start(mysess.Config{SchemaYAML: yaml, KeyStore: e.ks, ClientID: rid, Tables: defs, Store: store, Callbacks: callbacks, ClientCaps: caps})
	}
	sA, err := start(cbs)
	if errors.Is(err, mysess.ErrTimeout) {
		R.Note("inconclusive: deadline while starting a session")
		return vs, false, append(classes, "inconclusive")
	}
	if err != nil {
		vs.Add("harness:start", "%v\n%s", err, yaml)
		return
	}
	defer sA.Close()
	cb.mu.Lock()
	cb.sess = sA
	cb.mu.Unlock()
	sB, err := start(nil)
	if errors.Is(err, mysess.ErrTimeout) {
		R.Note("inconclusive: deadline while starting a session")
		return vs, false, append(classes, "inconclusive")
	}
	if err != nil {
		vs.Add("harness:start", "%v", err)
		return
	}
	defer sB.Close()

	// run reads one table; a reply that stops with ErrClosed means the proxy gave the session up (acra-server
	// closes both connections on the first error of a proxy loop, and so does the harness)
	run := func(s *mysess.Session, ti int) (rep *myReply, from int, err error) {
		tb := c.Tables[ti]
		sql := "SELECT * FROM " + tb.Name
		if !c.Star {
			var names []string
			for _, col := range tb.Cols {
				names = append(names, col.Name)
			}
			sql = "SELECT " + strings.Join(names, ", ") + " FROM " + tb.Name
		}
		if c.Binary {
			st, err := s.Prepare(sql)
			if err != nil {
				return nil, 0, err
			}
			if st.Err != nil {
				return nil, 0, fmt.Errorf("COM_STMT_PREPARE answered with %d %s", st.Err.Code, st.Err.Message)
			}
			_, from, _, _ = s.StreamLens()
			ex := mysess.Execute{StmtID: st.ID, NewParams: true}
			if err := s.SendCommand(ex.Encode()); err != nil {
				return nil, from, err
			}
		} else {
			_, from, _, _ = s.StreamLens()
			if err := s.SendCommand(append([]byte{mysess.ComQuery}, sql...)); err != nil {
				return nil, from, err
			}
		}
		rep, err = readMyReply(s, from)
		return rep, from, err
	}
	panicked := func(s *mysess.Session, which string) bool {
		if ps := s.Panics(); len(ps) > 0 {
			vs.Add("handler-panic:"+hx.PanicFunc(ps[0]), "the proxy's connection handler panicked (%s): %.1500s", which, ps[0])
			return true
		}
		return false
	}
	for ti, tb := range c.Tables {
		if ti >= len(planted) || len(planted[ti]) == 0 {
			continue
		}
		// baseline: no callbacks configured
		repB, _, err := run(sB, ti)
		if errors.Is(err, mysess.ErrTimeout) {
			R.Note("inconclusive: deadline in baseline session")
			return vs, false, append(classes, "inconclusive")
		}
		if panicked(sB, "session without callbacks") {
			return
		}
		if err != nil {
			// the proxy gives up on this result set even without callbacks (other properties' business)
			R.Note("baseline session broken (%s protocol): %v; proxy reported %.120q", proto, err, strings.Join(sB.ProxyErrors(), " | "))
			return vs, false, append(classes, "baseline-session-broken")
		}
		if repB.errPkt != nil {
			classes = append(classes, "baseline:error-reply")
		}
		before := len(cb.calls())
		repA, from, err := run(sA, ti)
		if errors.Is(err, mysess.ErrTimeout) {
			R.Note("inconclusive: deadline in session with callbacks")
			return vs, false, append(classes, "inconclusive")
		}
		if panicked(sA, "session with callbacks") {
			return
		}
		var diedA []string
		if err != nil {
			if !errors.Is(err, mysess.ErrClosed) {
				vs.Add("session-broken", "session with callbacks on table %s: %v", tb.Name, err)
				return
			}
			diedA = sA.ProxyErrors()
			if len(diedA) == 0 {
				diedA = []string{"connection closed: " + err.Error()}
			}
		}
		if repA == nil {
			repA = &myReply{}
		}
		snaps := cb.calls()[before:]
		_, recv := sA.ClientStreams()
		// rows the baseline delivered, by key
		deliveredB := map[int]bool{}
		for _, row := range repB.rows {
			if id, ok := myRowID(row, repB.nfields, c.Binary); ok {
				deliveredB[id] = true
			}
		}
		firesIn := func(id int) (fire, open int) {
			if id < 1 || id > len(planted[ti]) {
				return 0, 0
			}
			for _, pc := range planted[ti][id-1] {
				switch pc.exp {
				case expFire:
					fire++
				case expOpen:
					open++
				}
			}
			return
		}
		// every delivered row with poison records: the callbacks ran before the client got its first byte
		cum := 0
		for k, off := range repA.rowOffs {
			id, ok := myRowID(repA.rows[k], repA.nfields, c.Binary)
			if !ok {
				vs.Add("harness:rowid", "cannot decode the key of a delivered row")
				return
			}
			fire, _ := firesIn(id)
			if fire == 0 {
				continue
			}
			cum += fire
			if c.Mode == "error" {
				vs.Add("poison-delivered-despite-failing-callback:mysql-session:"+proto, "table %s row %d holds %d poison record cell(s) and reached the client although the callback fails (callback ran %d times)", tb.Name, id, fire, len(snaps))
				break
			}
			early := 0
			for _, s := range snaps {
				if s <= off {
					early++
				}
			}
			if early < cum {
				sig := "missed:mysql-session:" + proto
				if len(snaps) >= cum {
					sig = "callback-after-delivery:mysql-session:" + proto
				}
				vs.Add(sig, "table %s row %d (poison record cells up to here: %d) was delivered at client stream offset %d; callback invocations before that: %d of %d (client had received %v bytes at each invocation)", tb.Name, id, cum, off, early, len(snaps), snaps)
				break
			}
		}
		if c.Mode == "error" {
			// no live record in what the client received
			got := recv[from:]
			for _, prow := range planted[ti] {
				for _, pc := range prow {
					if pc.exp != expFire {
						continue
					}
					for _, rec := range append(append([][]byte{}, pc.r.liveContainers...), pc.r.liveRaw...) {
						if bytes.Contains(got, rec) || bytes.Contains(got, []byte(hex.EncodeToString(rec))) {
							vs.Add("poison-delivered-despite-failing-callback:mysql-session:"+proto, "the bytes the client received for table %s contain a poison record although the callback fails", tb.Name)
						}
					}
				}
			}
			mustFire := false
			for id := range deliveredB {
				f, _ := firesIn(id)
				mustFire = mustFire || f > 0
			}
			if mustFire && len(snaps) == 0 {
				vs.Add("missed:mysql-session:"+proto, "table %s: a row with a poison record is delivered without callbacks, and the failing callback never ran", tb.Name)
			}
			if len(snaps) > 0 {
				if diedA == nil {
					vs.Add("callback-error-lost:mysql-session:"+proto, "the callback failed %d times and the session went on (reply of %d packets, %d rows, ERR packet %v)", len(snaps), len(repA.payloads), len(repA.rows), repA.errPkt)
				} else if !strings.Contains(strings.Join(diedA, "\n"), errBoom.Error()) {
					vs.Add("callback-error-lost:mysql-session:"+proto, "the callback failed, the proxy reported %q", diedA)
				}
				classes = append(classes, "session:ended-by-callback-error", "session:ended-by-callback-error:"+proto)
				break // the connection is gone
			}
			if diedA != nil {
				vs.Add("session-broken", "the proxy gave up (%q) although no callback ran and the baseline session went through", diedA)
				return
			}
		}
		if c.Mode == "count" || len(snaps) == 0 {
			if diedA != nil {
				vs.Add("session-broken", "the proxy gave up (%q) with a succeeding callback; the baseline session went through", diedA)
				return
			}
			if d := sameMyReply(repA, repB); d != "" {
				vs.Add("callbacks-changed-data:mysql-session:"+proto, "table %s: reply with callbacks differs from the reply without: %s", tb.Name, d)
			}
			// a row the baseline delivers holds a poison record: the callback must have run
			need := 0
			for id := range deliveredB {
				f, _ := firesIn(id)
				need += f
			}
			if need > 0 {
				classes = append(classes, "delivered-rows-with-poison:"+proto)
			}
			if c.Mode == "count" && len(snaps) < need {
				vs.Add("missed:mysql-session:"+proto, "table %s: %d poison record cell(s) in delivered rows, callback ran %d times", tb.Name, need, len(snaps))
			}
		}
	}
	if totalFire == 0 && totalOpen == 0 && len(cb.calls()) != 0 {
		vs.Add("false-alarm:mysql-session:"+proto, "no cell holds an intact poison record of this keystore: callback ran %d times", len(cb.calls()))
	}
	return
}

func TestPoisonSessionsMySQL(t *testing.T) {
	R.Rule("TestPoisonSessionsMySQL", "MySQL twin of TestPoisonSessions: keystore and poison-key history as in TestPoisonColumn; generated encryptor configuration from the combinations the MySQL loader accepts (internal/myprog: 1-2 configured tables with columns plain / enc / search / mask / token / typed with declared types and failure policies, column client_id absent / the reader's / another identity's, + one table the configuration does not mention); 1-3 rows per table planted directly in the typed fake server (internal/mysess), every BLOB column (plain, encrypted, searchable, masked, typed, tokenized bytes) holding NULL, ordinary content or a value of TestPoisonColumn's shapes; every table is read (SELECT * / column list; COM_QUERY = text protocol or COM_STMT_PREPARE + COM_STMT_EXECUTE = binary protocol; with or without CLIENT_DEPRECATE_EOF) through acra's real MySQL proxy by alice or carol twice: without callbacks (baseline) and with a callback that either succeeds and records how many bytes the client had received when it ran, or fails. Oracle: for every delivered row holding poison records the callback ran before the client received the first byte of that row; with a failing callback no such row (and no record bytes) reaches the client and the proxy ends the session with the callback's error; sessions without poison records never invoke the callback; replies with a succeeding callback equal the baseline packet by packet; no handler panic. Non-trivial = as TestPoisonColumn")
	hx.Checks(110, 1200)
	rapid.Check(t, func(rt *rapid.T) {
		c := genMySessCase(rt)
		vs, nt, cl := CheckMySession(c)
		R.Seen("TestPoisonSessionsMySQL", c, nt, cl...)
		R.Report(rt, "TestPoisonSessionsMySQL", c, vs)
	})
}
